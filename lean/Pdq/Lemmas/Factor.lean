import Pdq.Model.Factor
import Pdq.Bridge
import Pdq.Props.C08
import Pdq.Lemmas.Calib
import Mathlib.Data.Matrix.Block
import Mathlib.Logic.Equiv.Fin.Basic
import Mathlib.Algebra.BigOperators.Field
/-!
# Lemmas for C14: the coefficient-major embedding of slices is a homomorphism

`blk X` is the block structure `X_a[i, j]·[a = b]` at index `(i·d + a, j·d + b)`: Mathlib's `blockDiagonal`
reindexed by `finProdFinEquiv` (`x ↦ (x / d, x % d)`).  `embedMat`, `embedVec` of the model are `blk`, `blkV` under
the abstraction maps, and every model operation commutes with the embedding.
-/
set_option linter.unusedSectionVars false
set_option linter.unusedSimpArgs false
open Matrix

namespace Pdq.FactorL
variable {K : Type} [Field K] {j k m n d : Nat}

/-- `x ↦ (x / d, x % d)` -/
def ix (n d : Nat) (x : Fin (n * d)) : Fin n × Fin d := finProdFinEquiv.symm x

theorem ix_fst (x : Fin (n * d)) : ((ix n d x).1 : Nat) = x.val / d := rfl
theorem ix_snd (x : Fin (n * d)) : ((ix n d x).2 : Nat) = x.val % d := rfl

def blkV (v : Fin d → Fin n → K) : Fin (n * d) → K := fun x => v (ix n d x).2 (ix n d x).1

def blk (X : Fin d → Matrix (Fin m) (Fin n) K) : Matrix (Fin (m * d)) (Fin (n * d)) K :=
  (Matrix.blockDiagonal X).submatrix (ix m d) (ix n d)

theorem blk_apply (X : Fin d → Matrix (Fin m) (Fin n) K) (x : Fin (m * d)) (y : Fin (n * d)) :
    blk X x y = if (ix m d x).2 = (ix n d y).2 then X (ix m d x).2 (ix m d x).1 (ix n d y).1 else 0 := by
  simp [blk, Matrix.blockDiagonal_apply]

theorem blk_mul (X : Fin d → Matrix (Fin m) (Fin n) K) (Y : Fin d → Matrix (Fin n) (Fin k) K) :
    blk X * blk Y = blk (fun a => X a * Y a) := by
  unfold blk ix
  rw [Matrix.submatrix_mul_equiv, ← Matrix.blockDiagonal_mul]

theorem blk_transpose (X : Fin d → Matrix (Fin m) (Fin n) K) : (blk X)ᵀ = blk (fun a => (X a)ᵀ) := by
  unfold blk
  rw [Matrix.transpose_submatrix, Matrix.blockDiagonal_transpose]

theorem blk_add (X Y : Fin d → Matrix (Fin m) (Fin n) K) : blk X + blk Y = blk (fun a => X a + Y a) := by
  funext x y; simp only [Matrix.add_apply, blk_apply]; split <;> simp

theorem blk_sub (X Y : Fin d → Matrix (Fin m) (Fin n) K) : blk X - blk Y = blk (fun a => X a - Y a) := by
  funext x y; simp only [Matrix.sub_apply, blk_apply]; split <;> simp

theorem blk_zero : blk (fun _ : Fin d => (0 : Matrix (Fin m) (Fin n) K)) = 0 := by
  funext x y; simp [blk_apply]

theorem blk_one : blk (fun _ : Fin d => (1 : Matrix (Fin n) (Fin n) K)) = 1 := by
  funext x y
  simp only [blk_apply, Matrix.one_apply]
  have : x = y ↔ ((ix n d x).2 = (ix n d y).2 ∧ (ix n d x).1 = (ix n d y).1) := by
    constructor
    · rintro rfl; exact ⟨rfl, rfl⟩
    · rintro ⟨h2, h1⟩
      have : ix n d x = ix n d y := Prod.ext h1 h2
      exact finProdFinEquiv.symm.injective this
  by_cases hxy : x = y
  · subst hxy; simp
  · rw [if_neg hxy]
    by_cases h2 : (ix n d x).2 = (ix n d y).2
    · have h1 : ¬ (ix n d x).1 = (ix n d y).1 := fun h1 => hxy (this.mpr ⟨h2, h1⟩)
      simp [h2, h1]
    · simp [h2]

theorem blk_diagonal (v : Fin d → Fin n → K) : Matrix.diagonal (blkV v) = blk (fun a => Matrix.diagonal (v a)) := by
  funext x y
  simp only [blk_apply, Matrix.diagonal_apply, blkV]
  by_cases hxy : x = y
  · subst hxy; simp
  · rw [if_neg hxy]
    by_cases h2 : (ix n d x).2 = (ix n d y).2
    · have h1 : ¬ (ix n d x).1 = (ix n d y).1 := fun h1 =>
        hxy (finProdFinEquiv.symm.injective (Prod.ext h1 h2))
      simp [h2, h1]
    · simp [h2]

theorem blk_mulVec (X : Fin d → Matrix (Fin m) (Fin n) K) (v : Fin d → Fin n → K) :
    blk X *ᵥ blkV v = blkV (fun a => X a *ᵥ v a) := by
  funext x
  simp only [Matrix.mulVec, dotProduct, blkV]
  rw [← (finProdFinEquiv (m := n) (n := d)).sum_comp]
  simp only [blk_apply, ix, Equiv.symm_apply_apply]
  rw [Fintype.sum_prod_type, Finset.sum_comm]
  rw [Finset.sum_eq_single (finProdFinEquiv.symm x).2]
  · simp
  · intro b _ hb
    apply Finset.sum_eq_zero
    intro i _
    rw [if_neg (Ne.symm hb), zero_mul]
  · intro h; exact absurd (Finset.mem_univ _) h

theorem blkV_add (u v : Fin d → Fin n → K) : blkV u + blkV v = blkV (fun a => u a + v a) := rfl
theorem blkV_sub (u v : Fin d → Fin n → K) : blkV u - blkV v = blkV (fun a => u a - v a) := rfl
theorem blkV_zero : blkV (fun _ : Fin d => (0 : Fin n → K)) = 0 := rfl

theorem blk_smul (c : K) (X : Fin d → Matrix (Fin m) (Fin n) K) : c • blk X = blk (fun a => c • X a) := by
  funext x y; simp only [Matrix.smul_apply, blk_apply]; split <;> simp

/-- energies add up over the slices -/
theorem blk_quad (u v : Fin d → Fin n → K) : blkV u ⬝ᵥ blkV v = ∑ a, (u a ⬝ᵥ v a) := by
  simp only [dotProduct, blkV]
  rw [← (finProdFinEquiv (m := n) (n := d)).sum_comp]
  simp only [ix, Equiv.symm_apply_apply]
  rw [Fintype.sum_prod_type, Finset.sum_comm]

/-! ### the model's embeddings under the abstraction maps -/

theorem getN_eq (v : Vec n K) (i : Fin n) : v.getNz i.val = v.get i := by
  simp [Vec.getNz]
theorem mgetN_eq (A : Mat m n K) (i : Fin m) (j : Fin n) : A.getNz i.val j.val = A.get i j := by
  simp [Mat.getNz]

theorem mod_lt_of_fin (x : Fin (n * d)) : x.val % d < d := by
  have hd : 0 < d := by
    rcases Nat.eq_zero_or_pos d with h | h
    · subst h; exact absurd x.isLt (by simp)
    · exact h
  exact Nat.mod_lt _ hd

theorem toV_embedVec (vs : Fin d → Vec n K) : (embedVec vs).toV = blkV (fun a => (vs a).toV) := by
  funext x
  have h := mod_lt_of_fin x
  simp only [embedVec, toV_ofFn, dif_pos h, blkV]
  have e1 : (⟨x.val % d, h⟩ : Fin d) = (ix n d x).2 := Fin.ext rfl
  rw [e1]
  exact getN_eq _ (ix n d x).1

theorem toM_embedMat (Xs : Fin d → Mat m n K) : (embedMat Xs).toM = blk (fun a => (Xs a).toM) := by
  funext x y
  have h := mod_lt_of_fin x
  simp only [embedMat, toM_ofFn, Matrix.of_apply, dif_pos h, blk_apply]
  have e1 : (⟨x.val % d, h⟩ : Fin d) = (ix m d x).2 := Fin.ext rfl
  rw [e1]
  have hc : (x.val % d = y.val % d) ↔ ((ix m d x).2 = (ix n d y).2) := by
    rw [Fin.ext_iff]; rfl
  by_cases hh : x.val % d = y.val % d
  · rw [if_pos hh, if_pos (hc.mp hh)]
    exact mgetN_eq _ (ix m d x).1 (ix n d y).1
  · rw [if_neg hh, if_neg (fun h' => hh (hc.mpr h'))]

/-! ### every primitive operation commutes with the embedding (equalities of model objects) -/

theorem embedMat_mul (Xs : Fin d → Mat m n K) (Ys : Fin d → Mat n k K) :
    (embedMat Xs).mul (embedMat Ys) = embedMat (fun a => (Xs a).mul (Ys a)) := by
  apply Mat.ext'; simp only [toM_mul, toM_embedMat, blk_mul]
theorem embedMat_add (Xs Ys : Fin d → Mat m n K) :
    (embedMat Xs).add (embedMat Ys) = embedMat (fun a => (Xs a).add (Ys a)) := by
  apply Mat.ext'; simp only [toM_add, toM_embedMat, blk_add]
theorem embedMat_sub (Xs Ys : Fin d → Mat m n K) :
    (embedMat Xs).sub (embedMat Ys) = embedMat (fun a => (Xs a).sub (Ys a)) := by
  apply Mat.ext'; simp only [toM_sub, toM_embedMat, blk_sub]
theorem embedMat_tr (Xs : Fin d → Mat m n K) : (embedMat Xs).tr = embedMat (fun a => (Xs a).tr) := by
  apply Mat.ext'; simp only [toM_tr, toM_embedMat, blk_transpose]
theorem embedMat_smul (c : K) (Xs : Fin d → Mat m n K) :
    Mat.smul c (embedMat Xs) = embedMat (fun a => Mat.smul c (Xs a)) := by
  apply Mat.ext'; simp only [toM_smul, toM_embedMat, blk_smul]
theorem embedMat_zero : (Mat.zero : Mat (m * d) (n * d) K) = embedMat (fun _ : Fin d => (Mat.zero : Mat m n K)) := by
  apply Mat.ext'; simp only [toM_zero, toM_embedMat, blk_zero]
theorem embedMat_one : (Mat.one : Mat (n * d) (n * d) K) = embedMat (fun _ : Fin d => (Mat.one : Mat n n K)) := by
  apply Mat.ext'; simp only [toM_one, toM_embedMat, blk_one]
theorem embedMat_rowScale (rs : Fin d → Vec m K) (Xs : Fin d → Mat m n K) :
    Mat.rowScale (embedVec rs) (embedMat Xs) = embedMat (fun a => Mat.rowScale (rs a) (Xs a)) := by
  apply Mat.ext'; simp only [toM_rowScale, toM_embedMat, toV_embedVec, blk_diagonal, blk_mul]
theorem embedMat_colScale (Xs : Fin d → Mat m n K) (cs : Fin d → Vec n K) :
    Mat.colScale (embedMat Xs) (embedVec cs) = embedMat (fun a => Mat.colScale (Xs a) (cs a)) := by
  apply Mat.ext'; simp only [toM_colScale, toM_embedMat, toV_embedVec, blk_diagonal, blk_mul]
theorem embedMat_congrScale (rs : Fin d → Vec n K) (Xs : Fin d → Mat n n K) :
    Mat.congrScale (embedVec rs) (embedMat Xs) = embedMat (fun a => Mat.congrScale (rs a) (Xs a)) := by
  apply Mat.ext'; simp only [toM_congrScale, toM_embedMat, toV_embedVec, blk_diagonal, blk_mul]
theorem embedMat_mulVec (Xs : Fin d → Mat m n K) (vs : Fin d → Vec n K) :
    (embedMat Xs).mulVec (embedVec vs) = embedVec (fun a => (Xs a).mulVec (vs a)) := by
  apply Vec.ext'; simp only [toV_mulVec, toM_embedMat, toV_embedVec, blk_mulVec]
theorem embedVec_add (us vs : Fin d → Vec n K) :
    (embedVec us).add (embedVec vs) = embedVec (fun a => (us a).add (vs a)) := by
  apply Vec.ext'; simp only [toV_add, toV_embedVec, blkV_add]
theorem embedVec_sub (us vs : Fin d → Vec n K) :
    (embedVec us).sub (embedVec vs) = embedVec (fun a => (us a).sub (vs a)) := by
  apply Vec.ext'; simp only [toV_sub, toV_embedVec, blkV_sub]
theorem embedVec_hmul (us vs : Fin d → Vec n K) :
    (embedVec us).hmul (embedVec vs) = embedVec (fun a => (us a).hmul (vs a)) := by
  apply Vec.ext'; simp only [toV_hmul, toV_embedVec, blk_diagonal, blk_mulVec]
theorem embedVec_inv (us : Fin d → Vec n K) : (embedVec us).inv = embedVec (fun a => (us a).inv) := by
  apply Vec.ext'; simp only [toV_inv, toV_embedVec]; rfl
theorem embedVec_zero : (Vec.zero : Vec (n * d) K) = embedVec (fun _ : Fin d => (Vec.zero : Vec n K)) := by
  apply Vec.ext'; simp only [toV_zero, toV_embedVec]; rfl
theorem embedVec_ones : (Vec.ones : Vec (n * d) K) = embedVec (fun _ : Fin d => (Vec.ones : Vec n K)) := by
  apply Vec.ext'; simp only [toV_ones, toV_embedVec]; rfl

/-! ### compound operations -/

theorem embed_marg (cs : Fin d → PCond m n K) (gs : Fin d → Gauss n K) :
    (embedPCond cs).marg (embedGauss gs) = embedGauss (fun a => (cs a).marg (gs a)) := by
  simp only [PCond.marg, embedPCond, embedGauss, embedVec_hmul, embedMat_congrScale, embedMat_mul, embedMat_tr,
    embedMat_add, embedMat_mulVec, embedVec_add]

theorem embed_applyPt (cs : Fin d → PCond m n K) (xs : Fin d → Vec n K) :
    (embedPCond cs).applyPt (embedVec xs) = embedGauss (fun a => (cs a).applyPt (xs a)) := by
  simp only [PCond.applyPt, embedPCond, embedGauss, embedVec_hmul, embedMat_congrScale, embedMat_mulVec, embedVec_add]

theorem embed_cond_marg (cs : Fin d → Cond m n K) (gs : Fin d → Gauss n K) :
    (embedCond cs).marg (embedGauss gs) = embedGauss (fun a => (cs a).marg (gs a)) := by
  simp only [Cond.marg, embedCond, embedGauss, embedMat_mul, embedMat_tr, embedMat_add, embedMat_mulVec, embedVec_add]

theorem embed_cond_revert (cs : Fin d → Cond m n K) (gs : Fin d → Gauss n K) (Gs : Fin d → Mat n m K) :
    (embedCond cs).revertWith (embedGauss gs) (embedMat Gs)
      = (embedGauss (fun a => ((cs a).revertWith (gs a) (Gs a)).1),
         embedCond (fun a => ((cs a).revertWith (gs a) (Gs a)).2)) := by
  simp only [Cond.revertWith]
  rw [embed_cond_marg]
  simp only [embedCond, embedGauss, embedMat_mul, embedMat_tr, embedMat_sub, embedMat_mulVec, embedVec_sub]

theorem embed_cond_applyPt (cs : Fin d → Cond m n K) (xs : Fin d → Vec n K) :
    (embedCond cs).applyPt (embedVec xs) = embedGauss (fun a => (cs a).applyPt (xs a)) := by
  simp only [Cond.applyPt, embedCond, embedGauss, embedMat_mulVec, embedVec_add]

theorem embed_bayesZero (cs : Fin d → Cond k n K) (gs : Fin d → Gauss n K) (Gs : Fin d → Mat n k K) :
    (embedCond cs).bayesZero (embedGauss gs) (embedMat Gs)
      = embedGauss (fun a => (cs a).bayesZero (gs a) (Gs a)) := by
  simp only [Cond.bayesZero]
  rw [embed_cond_revert, embedVec_zero, embed_cond_applyPt]

theorem embed_revert (cs : Fin d → PCond m n K) (gs : Fin d → Gauss n K) (Gs : Fin d → Mat n m K) :
    (embedPCond cs).revertWith (embedGauss gs) (embedMat Gs)
      = (embedGauss (fun a => ((cs a).revertWith (gs a) (Gs a)).1),
         embedPCond (fun a => ((cs a).revertWith (gs a) (Gs a)).2)) := by
  have hin : (embedPCond cs).inner (embedGauss gs) = embedGauss (fun a => (cs a).inner (gs a)) := by
    simp only [PCond.inner, embedPCond, embedGauss, embedVec_hmul, embedMat_congrScale]
  have hcore : (embedPCond cs).core = embedCond (fun a => (cs a).core) := rfl
  simp only [PCond.revertWith]
  rw [hin, hcore, embed_cond_revert]
  simp only [embedPCond, embedGauss, embedCond, embedVec_hmul, embedMat_congrScale, embedVec_inv]

theorem embed_merge (c2 : Fin d → PCond j m K) (c1 : Fin d → PCond m n K) :
    (embedPCond c2).merge (embedPCond c1) = embedPCond (fun a => (c2 a).merge (c1 a)) := by
  simp only [PCond.merge, embedPCond, embedVec_hmul, embedMat_rowScale, embedMat_congrScale, embedMat_mul, embedMat_tr,
    embedMat_add, embedMat_mulVec, embedVec_add]

theorem embed_identity : (PCond.identity (n * d) : PCond (n * d) (n * d) K)
    = embedPCond (fun _ : Fin d => (PCond.identity n : PCond n n K)) := by
  simp only [PCond.identity, embedPCond]
  rw [embedMat_one, embedVec_zero, embedMat_zero, embedVec_ones]

theorem embed_init (gs : Fin d → Gauss n K) :
    SolState.init (embedGauss gs) = embedState (fun a => SolState.init (gs a)) := by
  simp only [SolState.init, embedState]
  rw [embed_identity]

theorem embed_predict (s : Strategy) (trs : Fin d → PCond n n K) (sts : Fin d → SolState n K)
    (Gts : Fin d → Mat n n K) :
    s.predict (embedPCond trs) (embedState sts) (embedMat Gts)
      = embedState (fun a => s.predict (trs a) (sts a) (Gts a)) := by
  cases s
  · simp only [Strategy.predict, embedState]; rw [embed_marg]
  · simp only [Strategy.predict, embedState]; rw [embed_revert]
  · simp only [Strategy.predict, embedState]; rw [embed_revert, embed_merge]

theorem embed_whitenedSq (cs : Fin d → Cond k n K) (gs : Fin d → Gauss n K) (Ws : Fin d → Mat k k K) :
    (embedCond cs).whitenedSq (embedGauss gs) (embedMat Ws) = ∑ a, (cs a).whitenedSq (gs a) (Ws a) := by
  simp only [Cond.whitenedSq]
  rw [embed_cond_marg]
  simp only [Gauss.maha, Mat.bilin, embedGauss]
  rw [embedVec_zero, embedVec_sub, embedMat_mulVec, dot_eq, toV_embedVec, toV_embedVec, blk_quad]
  simp only [dot_eq]

/-- a finite sum of list sums is the list sum of the finite sums (for an additive map `g`) -/
theorem list_sum_finset_sum (E : List (Fin d → K)) (g : K → K) (hg : ∀ x y, g (x + y) = g x + g y) (h0 : g 0 = 0) :
    (∑ a, (E.map fun e => g (e a)).sum) = (E.map fun e => g (∑ a, e a)).sum := by
  have hsum : ∀ (e : Fin d → K), g (∑ a, e a) = ∑ a, g (e a) := by
    intro e
    have : ∀ (S : Finset (Fin d)), g (∑ a ∈ S, e a) = ∑ a ∈ S, g (e a) := by
      intro S
      induction S using Finset.induction_on with
      | empty => simp [h0]
      | insert a S ha ih => rw [Finset.sum_insert ha, Finset.sum_insert ha, hg, ih]
    exact this Finset.univ
  induction E with
  | nil => simp
  | cons e rest ih =>
    simp only [List.map_cons, List.sum_cons, Finset.sum_add_distrib]
    rw [ih, hsum]

end Pdq.FactorL
