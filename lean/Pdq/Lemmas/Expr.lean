import Pdq.Model.Expr
import Mathlib.RingTheory.PowerSeries.Derivative
import Mathlib.Tactic.Ring
import Mathlib.Tactic.FieldSimp

/-!
# Pdq.Lemmas.Expr — helper lemmas about `Pdq.Model.Expr`

List bookkeeping (`tabulate`, `getU`), `eval` commutes with homomorphisms, `eval` only reads the
variables below `order`, truncation `K⟦X⟧ → TSer n K` is a homomorphism, casts `natK`/`factK`,
specification of the Python slicing in `argsAuto`.
-/
set_option linter.unusedSectionVars false
open PowerSeries

namespace Pdq

theorem iter_eq {α : Type} (f : α → α) (n : ℕ) (a : α) : iter f n a = f^[n] a := by
  induction n generalizing a with
  | zero => rfl
  | succ n ih => simp [iter, ih]

theorem iter_succ' {α : Type} (f : α → α) (n : ℕ) (a : α) : iter f (n + 1) a = f (iter f n a) := by
  rw [iter_eq, iter_eq, Function.iterate_succ_apply']

@[simp] theorem tabulate_length {α : Type} (n : ℕ) (f : ℕ → α) : (tabulate n f).length = n := by
  simp [tabulate]

theorem tabulate_getD {α : Type} (n : ℕ) (f : ℕ → α) (j : ℕ) (d : α) :
    (tabulate n f).getD j d = if j < n then f j else d := by
  unfold tabulate
  by_cases h : j < n
  · simp [h, List.getD_eq_getElem?_getD]
  · simp [h, List.getD_eq_getElem?_getD]

theorem tabulate_getD_lt {α : Type} {n : ℕ} (f : ℕ → α) {j : ℕ} (h : j < n) (d : α) :
    (tabulate n f).getD j d = f j := by rw [tabulate_getD, if_pos h]

theorem tabulate_congr {α : Type} {n : ℕ} {f g : ℕ → α} (h : ∀ j < n, f j = g j) :
    tabulate n f = tabulate n g := by
  unfold tabulate
  apply List.map_congr_left
  intro j hj
  exact h j (List.mem_range.mp hj)

theorem tabulate_succ {α : Type} (n : ℕ) (f : ℕ → α) : tabulate (n + 1) f = tabulate n f ++ [f n] := by
  simp [tabulate, List.range_succ]

/-- two lists of equal length agreeing under `getD` are equal -/
theorem list_ext_getD {α : Type} {l l' : List α} (d : α) (hl : l.length = l'.length)
    (h : ∀ j < l.length, l.getD j d = l'.getD j d) : l = l' := by
  apply List.ext_getElem hl
  intro j h1 h2
  have := h j h1
  simpa [List.getD_eq_getElem?_getD, h1, h2] using this

namespace Expr
variable {K : Type}

/-- `eval` commutes with every map that preserves `+ * -` -/
theorem eval_hom {R S : Type} [Add R] [Mul R] [Neg R] [Add S] [Mul S] [Neg S] (φ : R → S)
    (hadd : ∀ a b, φ (a + b) = φ a + φ b) (hmul : ∀ a b, φ (a * b) = φ a * φ b)
    (hneg : ∀ a, φ (-a) = - φ a) (c : K → R) (u : ℕ → ℕ → R) (t : R) (g : Expr K) :
    φ (eval c u t g) = eval (fun a => φ (c a)) (fun k i => φ (u k i)) (φ t) g := by
  induction g with
  | const a => rfl
  | var k i => rfl
  | time => rfl
  | add p q ihp ihq => simp [eval, hadd, ihp, ihq]
  | mul p q ihp ihq => simp [eval, hmul, ihp, ihq]
  | neg p ih => simp [eval, hneg, ih]

/-- `eval` reads only the variables `u^(k)` with `k < order g` -/
theorem eval_congr_order {R : Type} [Add R] [Mul R] [Neg R] (c : K → R) (u u' : ℕ → ℕ → R) (t : R)
    (g : Expr K) (h : ∀ k i, k < g.order → u k i = u' k i) : eval c u t g = eval c u' t g := by
  induction g with
  | const a => rfl
  | var k i => exact h k i (by simp [order])
  | time => rfl
  | add p q ihp ihq =>
      simp only [eval]
      rw [ihp (fun k i hk => h k i (by simp only [order]; omega)),
        ihq (fun k i hk => h k i (by simp only [order]; omega))]
  | mul p q ihp ihq =>
      simp only [eval]
      rw [ihp (fun k i hk => h k i (by simp only [order]; omega)),
        ihq (fun k i hk => h k i (by simp only [order]; omega))]
  | neg p ih =>
      simp only [eval]
      rw [ih (fun k i hk => h k i (by simpa [order] using hk))]

/-- `eval` reads only the variables `u^(k)_i` with `k < order g`, `i < width g` -/
theorem eval_congr_ow {R : Type} [Add R] [Mul R] [Neg R] (c : K → R) (u u' : ℕ → ℕ → R) (t : R)
    (g : Expr K) (h : ∀ k i, k < g.order → i < g.width → u k i = u' k i) :
    eval c u t g = eval c u' t g := by
  induction g with
  | const a => rfl
  | var k i => exact h k i (by simp [order]) (by simp [width])
  | time => rfl
  | add p q ihp ihq =>
      simp only [eval]
      rw [ihp (fun k i hk hi => h k i (by simp only [order]; omega) (by simp only [width]; omega)),
        ihq (fun k i hk hi => h k i (by simp only [order]; omega) (by simp only [width]; omega))]
  | mul p q ihp ihq =>
      simp only [eval]
      rw [ihp (fun k i hk hi => h k i (by simp only [order]; omega) (by simp only [width]; omega)),
        ihq (fun k i hk hi => h k i (by simp only [order]; omega) (by simp only [width]; omega))]
  | neg p ih =>
      simp only [eval]
      rw [ih (fun k i hk hi => h k i (by simpa [order] using hk) (by simpa [width] using hi))]

/-- freezing the time: `eval (freeze t0 g)` at any time = `eval g` at time `t0` -/
theorem eval_freeze {R : Type} [Add R] [Mul R] [Neg R] (c : K → R) (u : ℕ → ℕ → R) (t : R) (t0 : K)
    (g : Expr K) : eval c u t (freeze t0 g) = eval c u (c t0) g := by
  induction g with
  | const a => rfl
  | var k i => rfl
  | time => rfl
  | add p q ihp ihq => simp only [freeze, eval, ihp, ihq]
  | mul p q ihp ihq => simp only [freeze, eval, ihp, ihq]
  | neg p ih => simp only [freeze, eval, ih]

theorem order_freeze (t0 : K) (g : Expr K) : (freeze t0 g).order = g.order := by
  induction g with
  | const a => rfl
  | var k i => rfl
  | time => rfl
  | add p q ihp ihq => simp only [freeze, order, ihp, ihq]
  | mul p q ihp ihq => simp only [freeze, order, ihp, ihq]
  | neg p ih => simp only [freeze, order, ih]

theorem timeFree_freeze (t0 : K) (g : Expr K) : (freeze t0 g).timeFree = true := by
  induction g with
  | const a => rfl
  | var k i => rfl
  | time => rfl
  | add p q ihp ihq => simp [freeze, timeFree, ihp, ihq]
  | mul p q ihp ihq => simp [freeze, timeFree, ihp, ihq]
  | neg p ih => simp [freeze, timeFree, ih]

theorem freeze_of_timeFree (t0 : K) (g : Expr K) (h : g.timeFree = true) : freeze t0 g = g := by
  induction g with
  | const a => rfl
  | var k i => rfl
  | time => simp [timeFree] at h
  | add p q ihp ihq => simp [timeFree] at h; simp [freeze, ihp h.1, ihq h.2]
  | mul p q ihp ihq => simp [timeFree] at h; simp [freeze, ihp h.1, ihq h.2]
  | neg p ih => simp [timeFree] at h; simp [freeze, ih h]

section
variable [Zero K] [One K]

theorem order_D_le (g : Expr K) : (D g).order ≤ g.order + 1 := by
  induction g with
  | const a => simp [D, order]
  | var k i => simp [D, order]
  | time => simp [D, order]
  | add p q ihp ihq => simp only [D, order]; omega
  | mul p q ihp ihq => simp only [D, order]; omega
  | neg p ih => simpa [D, order] using ih

theorem order_iter_D_le (g : Expr K) (j : ℕ) : (iter D j g).order ≤ g.order + j := by
  induction j with
  | zero => simp [iter]
  | succ n ih =>
      rw [iter_succ']
      have := order_D_le (iter D n g)
      omega

theorem width_D_le (g : Expr K) : (D g).width ≤ g.width := by
  induction g with
  | const a => simp [D, width]
  | var k i => simp [D, width]
  | time => simp [D, width]
  | add p q ihp ihq => simp only [D, width]; omega
  | mul p q ihp ihq => simp only [D, width]; omega
  | neg p ih => simpa [D, width] using ih

theorem width_iter_D_le (g : Expr K) (j : ℕ) : (iter D j g).width ≤ g.width := by
  induction j with
  | zero => simp [iter]
  | succ n ih =>
      rw [iter_succ']
      have := width_D_le (iter D n g)
      omega

theorem order_lie_le (n : ℕ) (fs : List (Expr K)) (dt : K) (hfs : ∀ f ∈ fs, f.order ≤ n) (g : Expr K)
    (hg : g.order ≤ n) : (lie n fs dt g).order ≤ n := by
  induction g with
  | const a => simp [lie, order]
  | var k i =>
      simp only [lie]
      split
      · simp only [order]; omega
      · rw [List.getD_eq_getElem?_getD]
        rcases h : fs[i]? with _ | f
        · simp [order]
        · exact hfs f (List.mem_of_getElem? h)
  | time => simp [lie, order]
  | add p q ihp ihq =>
      simp only [order] at hg
      simp only [lie, order]
      have := ihp (by omega); have := ihq (by omega); omega
  | mul p q ihp ihq =>
      simp only [order] at hg
      simp only [lie, order]
      have := ihp (by omega); have := ihq (by omega); omega
  | neg p ih => simpa [lie, order] using ih (by simpa [order] using hg)

theorem order_iter_lie_le (n : ℕ) (fs : List (Expr K)) (dt : K) (hfs : ∀ f ∈ fs, f.order ≤ n) (g : Expr K)
    (hg : g.order ≤ n) (j : ℕ) : (iter (lie n fs dt) j g).order ≤ n := by
  induction j with
  | zero => simpa [iter] using hg
  | succ m ih => rw [iter_succ']; exact order_lie_le n fs dt hfs _ ih

/-- freezing the time commutes with the forward-mode derivative that treats `t` as a constant -/
theorem freeze_lie (n : ℕ) (fs : List (Expr K)) (t0 : K) (g : Expr K) :
    freeze t0 (lie n fs 0 g) = lie n (fs.map (freeze t0)) 0 (freeze t0 g) := by
  induction g with
  | const a => rfl
  | var k i =>
      simp only [lie, freeze]
      split
      · rfl
      · simp only [List.getD_eq_getElem?_getD, List.getElem?_map]
        rcases fs[i]? with _ | f <;> rfl
  | time => rfl
  | add p q ihp ihq => simp only [lie, freeze, ihp, ihq]
  | mul p q ihp ihq => simp only [lie, freeze, ihp, ihq]
  | neg p ih => simp only [lie, freeze, ih]

theorem freeze_iter_lie (n : ℕ) (fs : List (Expr K)) (t0 : K) (g : Expr K) (j : ℕ) :
    freeze t0 (iter (lie n fs 0) j g) = iter (lie n (fs.map (freeze t0)) 0) j (freeze t0 g) := by
  induction j generalizing g with
  | zero => rfl
  | succ m ih => simp only [iter]; rw [ih, freeze_lie]

end

end Expr


theorem list_sum_range {M : Type} [AddCommMonoid M] (f : ℕ → M) (n : ℕ) :
    ((List.range n).map f).sum = ∑ i ∈ Finset.range n, f i := by
  induction n with
  | zero => simp
  | succ n ih => simp [List.range_succ, Finset.sum_range_succ, ih]

namespace TSer
variable {K : Type} {n : ℕ}

theorem ext' {a b : TSer n K} (h : a.coeffs = b.coeffs) : a = b := by
  cases a; cases b; simp_all

theorem get_ofFn [Zero K] (f : ℕ → K) (j : ℕ) : (ofFn n f).get j = if j < n then f j else 0 := by
  unfold ofFn get; exact tabulate_getD n f j 0

theorem get_ofFn_lt [Zero K] (f : ℕ → K) {j : ℕ} (h : j < n) : (ofFn n f).get j = f j := by
  rw [get_ofFn, if_pos h]

theorem ofFn_congr {f g : ℕ → K} (h : ∀ j < n, f j = g j) : ofFn n f = ofFn n g :=
  ext' (tabulate_congr h)

theorem add_def [Zero K] [Add K] (a b : TSer n K) : a + b = ofFn n fun j => a.get j + b.get j := rfl
theorem neg_def [Zero K] [Neg K] (a : TSer n K) : -a = ofFn n fun j => - a.get j := rfl
theorem mul_def [Zero K] [Add K] [Mul K] (a b : TSer n K) : a * b = ofFn n (cauchy a.get b.get) := rfl

theorem cauchy_eq [CommSemiring K] (a b : ℕ → K) (j : ℕ) :
    cauchy a b j = ∑ i ∈ Finset.range (j + 1), a i * b (j - i) := by
  unfold cauchy; rw [list_sum_range]

end TSer

variable {K : Type} [CommRing K]

/-- the first `n` coefficients of a formal power series -/
noncomputable def truncT (n : ℕ) (F : K⟦X⟧) : TSer n K := TSer.ofFn n fun j => coeff j F

theorem truncT_get_lt {n j : ℕ} (h : j < n) (F : K⟦X⟧) : (truncT n F).get j = coeff j F :=
  TSer.get_ofFn_lt _ h

theorem truncT_add (n : ℕ) (F G : K⟦X⟧) : truncT n (F + G) = truncT n F + truncT n G := by
  rw [TSer.add_def]
  exact TSer.ofFn_congr fun j hj => by simp [truncT_get_lt hj]

theorem truncT_neg (n : ℕ) (F : K⟦X⟧) : truncT n (-F) = - truncT n F := by
  rw [TSer.neg_def]
  exact TSer.ofFn_congr fun j hj => by simp [truncT_get_lt hj]

theorem truncT_mul (n : ℕ) (F G : K⟦X⟧) : truncT n (F * G) = truncT n F * truncT n G := by
  rw [TSer.mul_def]
  refine TSer.ofFn_congr fun j hj => ?_
  rw [TSer.cauchy_eq, PowerSeries.coeff_mul, Finset.Nat.sum_antidiagonal_eq_sum_range_succ_mk]
  refine Finset.sum_congr rfl fun i hi => ?_
  have hi' : i < j + 1 := Finset.mem_range.mp hi
  rw [truncT_get_lt (by omega), truncT_get_lt (by omega)]

theorem truncT_C (n : ℕ) (a : K) : truncT n (C a : K⟦X⟧) = TSer.const n a := by
  unfold TSer.const
  refine TSer.ofFn_congr fun j _ => ?_
  rw [PowerSeries.coeff_C]


section casts
variable {K : Type}

theorem natK_eq [Ring K] (n : ℕ) : (natK n : K) = (n : K) := by
  induction n with
  | zero => simp [natK]
  | succ n ih => simp [natK, ih]

theorem factK_eq [Ring K] (n : ℕ) : (factK n : K) = (n.factorial : K) := by
  induction n with
  | zero => simp [factK]
  | succ n ih => simp [factK, ih, natK_eq, Nat.factorial_succ]

theorem factK_ne_zero [Field K] [CharZero K] (n : ℕ) : (factK n : K) ≠ 0 := by
  rw [factK_eq]; exact_mod_cast Nat.factorial_ne_zero n

/-! ### Python slicing in `argsAuto` -/

theorem argsAuto_fst {α : Type} (ts : List α) (Kk : ℕ) : (argsAuto ts Kk).1 = ts.take Kk := rfl

theorem argsAuto_snd_length {α : Type} (ts : List α) (Kk : ℕ) : (argsAuto ts Kk).2.length = Kk := by
  simp [argsAuto]

/-- `series_u[k] = ts[1 + k : 1 + k + (L - K)]` -/
theorem argsAuto_series {α : Type} (ts : List α) (Kk : ℕ) (k : ℕ) (hk : k < Kk) (hL : Kk ≤ ts.length) :
    (argsAuto ts Kk).2.getD k [] = (ts.drop (1 + k)).take (ts.length - Kk) := by
  unfold argsAuto
  simp only [List.getD_eq_getElem?_getD, List.getElem?_map, List.getElem?_range hk, Option.map_some,
    Option.getD_some]
  by_cases h : (k : ℤ) + 1 - (Kk : ℤ) = 0
  · have hk' : k + 1 = Kk := by omega
    simp only [h, if_true, pySlice, List.length_drop]
    rw [List.take_of_length_le (by simp), List.drop_drop, List.take_of_length_le (by simp; omega)]
  · have hneg : (k : ℤ) + 1 - (Kk : ℤ) < 0 := by omega
    simp only [h, if_false, pySlice, hneg, if_true, List.length_drop]
    rw [List.drop_take, List.drop_drop]
    congr 1
    omega

end casts


section curve
open Pdq.Expr
variable {K : Type} [Field K] [CharZero K]

/-- the formal curve with prescribed derivatives: `U k i = Σ_j c_{k+j,i} X^j / j!` -/
noncomputable def curve (a : ℕ → ℕ → K) (k i : ℕ) : K⟦X⟧ := PowerSeries.mk fun j => a (k + j) i / (j.factorial : K)

theorem curve_deriv (a : ℕ → ℕ → K) (k i : ℕ) : d⁄dX K (curve a k i) = curve a (k + 1) i := by
  ext n
  rw [coeff_derivative]
  simp only [curve, coeff_mk, Nat.factorial_succ, Nat.cast_mul, Nat.cast_succ]
  have h1 : (n.factorial : K) ≠ 0 := by exact_mod_cast Nat.factorial_ne_zero n
  have h2 : ((n : K) + 1) ≠ 0 := by exact_mod_cast Nat.succ_ne_zero n
  rw [show k + (n + 1) = k + 1 + n by omega]
  field_simp

theorem curve_const (a : ℕ → ℕ → K) (k i : ℕ) : constantCoeff (curve a k i) = a k i := by
  simp [curve]

theorem iterate_curve_deriv (a : ℕ → ℕ → K) (k i n : ℕ) :
    (d⁄dX K)^[n] (curve a k i) = curve a (k + n) i := by
  induction n generalizing k with
  | zero => rfl
  | succ n ih => rw [Function.iterate_succ_apply, curve_deriv, ih]; congr 1; omega

/-- the clock `t + X` -/
noncomputable def clock (t : K) : K⟦X⟧ := C t + X

theorem clock_deriv (t : K) : d⁄dX K (clock t) = 1 := by simp [clock]
theorem clock_const (t : K) : constantCoeff (clock t) = t := by simp [clock]

theorem clock_coeff (t : K) (j : ℕ) : coeff j (clock t) = if j = 0 then t else if j = 1 then 1 else 0 := by
  simp only [clock, map_add, coeff_C, coeff_X]
  rcases j with _ | _ | j <;> simp

end curve

end Pdq
