import Pdq.Model.Adaptive
import Pdq.Lemmas.Control
import Mathlib.Algebra.Order.Field.Basic
import Mathlib.Algebra.Order.Ring.Abs
import Mathlib.Tactic.Linarith

/-!
# Lemmas about the adaptive state machine (`Pdq.Model.Adaptive`) over an ordered field

* `SolverLaws`: what the state machine may assume about the solver protocol (times / step counters);
* `Reach`: the states reachable by repeated `RejectionLoop.loop` calls (with or without handing the
  solution back to the caller) — both `solve_adaptive_save_at` and `solve_adaptive_save_every_step`
  only ever produce such states (`solveSaveAt_reach`, `solveEveryStep_reach`);
* invariants of reachable states: `Struct` (shape of the trace), `Sums` (time / step counter are sums
  over accepted attempts), `Pos` (positivity, interpolation brackets).
-/
set_option linter.unusedSectionVars false
namespace Pdq
variable {K : Type} [Field K] [LinearOrder K] [IsStrictOrderedRing K] {σ : Type}

/-- the contract of `solver_protocols.LSolver` as far as times and step counters are concerned
(`solvers.py`: `step`, `interpolate_fwd`, `interpolate_fwd_at_t1`) -/
structure SolverLaws (sv : LSolver K) : Prop where
  init_t : ∀ t u, (sv.init t u).t = t
  step_t : ∀ s dt, (sv.step s dt).t = s.t + dt
  step_n : ∀ s dt, (sv.step s dt).numSteps = s.numSteps + 1
  fwd_sol_t : ∀ t a b, (sv.interpFwd t a b).sol.t = t
  fwd_sol_n : ∀ t a b, (sv.interpFwd t a b).sol.numSteps = b.numSteps
  fwd_stepFrom_t : ∀ t a b, (sv.interpFwd t a b).stepFrom.t = b.t
  fwd_stepFrom_n : ∀ t a b, (sv.interpFwd t a b).stepFrom.numSteps = b.numSteps
  fwd_interpFrom_t : ∀ t a b, (sv.interpFwd t a b).interpFrom.t = t
  at_sol_t : ∀ t a b, (sv.interpAtT1 t a b).sol.t = b.t
  at_sol_n : ∀ t a b, (sv.interpAtT1 t a b).sol.numSteps = b.numSteps
  at_stepFrom_t : ∀ t a b, (sv.interpAtT1 t a b).stepFrom.t = b.t
  at_stepFrom_n : ∀ t a b, (sv.interpAtT1 t a b).stepFrom.numSteps = b.numSteps
  at_interpFrom_t : ∀ t a b, (sv.interpAtT1 t a b).interpFrom.t = b.t

/-! ## trace predicates -/

/-- the attempt record is what `step_attempt` produces from *some* incoming proposal -/
def AttemptWF (cfg : Cfg K σ) (a : AttemptRec K σ) : Prop :=
  ∃ dtIn, a = cfg.mkAttempt a.t1 a.src a.esIn dtIn a.cIn

/-- what a well-formed attempt record says about the protocol calls -/
theorem AttemptWF.facts {cfg : Cfg K σ} {a : AttemptRec K σ} (h : AttemptWF cfg a) :
    (∃ dtIn, a.dt = cfg.clipDt a.t1 a.src dtIn) ∧
    a.proposed = cfg.solver.step a.src a.dt ∧
    a.ep = (cfg.est.estimate a.esIn a.src a.proposed a.dt).1 ∧
    a.esOut = (cfg.est.estimate a.esIn a.src a.proposed a.dt).2 ∧
    a.dtNew = (cfg.ctl.apply a.dt a.cIn a.ep).1 ∧
    a.cOut = (cfg.ctl.apply a.dt a.cIn a.ep).2 := by
  obtain ⟨dtIn, h⟩ := h
  have hdt : a.dt = cfg.clipDt a.t1 a.src dtIn := congrArg AttemptRec.dt h
  have hprop : a.proposed = cfg.solver.step a.src (cfg.clipDt a.t1 a.src dtIn) := congrArg AttemptRec.proposed h
  have hep : a.ep = (cfg.est.estimate a.esIn a.src (cfg.solver.step a.src (cfg.clipDt a.t1 a.src dtIn))
      (cfg.clipDt a.t1 a.src dtIn)).1 := congrArg AttemptRec.ep h
  have hes : a.esOut = (cfg.est.estimate a.esIn a.src (cfg.solver.step a.src (cfg.clipDt a.t1 a.src dtIn))
      (cfg.clipDt a.t1 a.src dtIn)).2 := congrArg AttemptRec.esOut h
  have hnew : a.dtNew = (cfg.ctl.apply (cfg.clipDt a.t1 a.src dtIn) a.cIn
      (cfg.est.estimate a.esIn a.src (cfg.solver.step a.src (cfg.clipDt a.t1 a.src dtIn))
        (cfg.clipDt a.t1 a.src dtIn)).1).1 := congrArg AttemptRec.dtNew h
  have hc : a.cOut = (cfg.ctl.apply (cfg.clipDt a.t1 a.src dtIn) a.cIn
      (cfg.est.estimate a.esIn a.src (cfg.solver.step a.src (cfg.clipDt a.t1 a.src dtIn))
        (cfg.clipDt a.t1 a.src dtIn)).1).2 := congrArg AttemptRec.cOut h
  rw [← hdt] at hprop hep hes hnew hc
  rw [← hprop] at hep hes hnew hc
  rw [← hep] at hnew hc
  exact ⟨⟨dtIn, hdt⟩, hprop, hep, hes, hnew, hc⟩

/-- newest-first adjacency: `P older newer` for all neighbours -/
def Adjacent (P : Event K σ → Event K σ → Prop) : List (Event K σ) → Prop
  | [] => True
  | e2 :: tl => (∀ e1 tl', tl = e1 :: tl' → P e1 e2) ∧ Adjacent P tl

/-- a rejected attempt is immediately followed by the attempt that `step_attempt` makes from the
*same* `step_from`, the *same* error state, the controller's new proposal and state -/
def RejNext (cfg : Cfg K σ) (e1 e2 : Event K σ) : Prop :=
  ∀ a1, e1 = Event.attempt a1 → a1.ep < 1 →
    e2 = Event.attempt (cfg.mkAttempt a1.t1 a1.src a1.esIn a1.dtNew a1.cOut)

def RejChain (cfg : Cfg K σ) (tr : List (Event K σ)) : Prop := Adjacent (RejNext cfg) tr

/-- the newest event is not a rejected attempt -/
def HeadNotRejected (tr : List (Event K σ)) : Prop :=
  ∀ a tl, tr = Event.attempt a :: tl → ¬ a.ep < 1

/-- every solution handed back carries the number of attempts accepted before it -/
def OutputsOK (n0 : Nat) : List (Event K σ) → Prop
  | [] => True
  | Event.output _ y :: tl => y.numSteps = n0 + accCount tl ∧ OutputsOK n0 tl
  | Event.attempt _ :: tl => OutputsOK n0 tl
  | Event.interp _ _ _ _ :: tl => OutputsOK n0 tl

/-! ## unfolding lemmas -/

theorem whileRej_ind (cfg : Cfg K σ) (t1 : K) (R : RejState K σ → Prop)
    (hstep : ∀ r, R r → r.acceptanceFactorProposed < 1 → R (cfg.stepAttempt t1 r)) :
    ∀ fuel r r', R r → cfg.whileRej t1 fuel r = some r' → R r' ∧ ¬ r'.acceptanceFactorProposed < 1 := by
  intro fuel
  induction fuel with
  | zero =>
    intro r r' hR h
    unfold Cfg.whileRej at h
    split at h
    · cases h
    · cases h; exact ⟨hR, ‹_›⟩
  | succ n ih =>
    intro r r' hR h
    unfold Cfg.whileRej at h
    split at h
    · exact ih _ _ (hstep r hR ‹_›) h
    · cases h; exact ⟨hR, ‹_›⟩

/-- induction principle for `RejectionLoop.step` -/
theorem step_ind (cfg : Cfg K σ) (t1 : K) (s s' : TimeStepState K σ) (fuel : Nat)
    (R : RejState K σ → Prop) (h0 : R (cfg.stepInitLoopstate s))
    (hstep : ∀ r, R r → r.acceptanceFactorProposed < 1 → R (cfg.stepAttempt t1 r))
    (h : cfg.step fuel s t1 = some s') :
    ∃ r, R r ∧ ¬ r.acceptanceFactorProposed < 1 ∧ s' = r.extract := by
  unfold Cfg.step at h
  split at h
  · cases h
  · next r hr =>
    cases h
    obtain ⟨h1, h2⟩ := whileRej_ind cfg t1 R hstep fuel _ r h0 hr
    exact ⟨r, h1, h2, rfl⟩

theorem loop_cases (cfg : Cfg K σ) {fuel : Nat} {s0 s' : TimeStepState K σ} {t1 eps : K} {sol : LSolState K}
    (h : cfg.loop fuel s0 t1 eps = some (sol, s')) :
    ∃ s, ((s0.stepFrom.t + eps < t1 ∧ cfg.step fuel s0 t1 = some s) ∨ (¬ s0.stepFrom.t + eps < t1 ∧ s = s0)) ∧
      (sol, s') = cfg.interpolate s t1 eps := by
  unfold Cfg.loop at h
  split at h
  · cases h
  · next s hs =>
    injection h with h
    refine ⟨s, ?_, h.symm⟩
    split at hs
    · left; exact ⟨‹_›, hs⟩
    · right; cases hs; exact ⟨‹_›, rfl⟩

/-- what the three-way switch returns -/
theorem interpolate_cases (cfg : Cfg K σ) (s : TimeStepState K σ) (t1 eps : K) :
    (s.stepFrom.t + eps < t1 ∧ cfg.interpolate s t1 eps = cfg.interpSkip s t1) ∨
    (¬ s.stepFrom.t + eps < t1 ∧ s.stepFrom.t > t1 + eps ∧ cfg.interpolate s t1 eps = cfg.interpBeyond s t1) ∨
    (¬ s.stepFrom.t + eps < t1 ∧ ¬ s.stepFrom.t > t1 + eps ∧ cfg.interpolate s t1 eps = cfg.interpAt s t1) := by
  unfold Cfg.interpolate
  by_cases h1 : s.stepFrom.t + eps < t1
  · left; exact ⟨h1, by rw [if_pos h1]⟩
  · by_cases h2 : s.stepFrom.t > t1 + eps
    · right; left; exact ⟨h1, h2, by rw [if_neg h1, if_pos h2]⟩
    · right; right; exact ⟨h1, h2, by rw [if_neg h1, if_neg h2]⟩

/-! ## reachable states -/

/-- states reachable from `s0` by `RejectionLoop.loop` calls whose successive targets are related by `R`
(`R := fun _ _ => True`: arbitrary targets; `R := (· ≤ ·)`: non-decreasing checkpoints);
`out` additionally logs the solution handed back to the caller. The index is the latest target. -/
inductive Reach (cfg : Cfg K σ) (eps : K) (R : K → K → Prop) (s0 : TimeStepState K σ) (t0 : K) :
    K → TimeStepState K σ → Prop
  | init : Reach cfg eps R s0 t0 t0 s0
  | loop {cur t1 : K} {s s' : TimeStepState K σ} {sol : LSolState K} {fuel : Nat} :
      Reach cfg eps R s0 t0 cur s → R cur t1 → cfg.loop fuel s t1 eps = some (sol, s') →
      Reach cfg eps R s0 t0 t1 s'
  | out {cur t1 : K} {s s' : TimeStepState K σ} {sol : LSolState K} {fuel : Nat} :
      Reach cfg eps R s0 t0 cur s → R cur t1 → cfg.loop fuel s t1 eps = some (sol, s') →
      Reach cfg eps R s0 t0 t1 { s' with trace := Event.output t1 sol :: s'.trace }

theorem Reach.inv {cfg : Cfg K σ} {eps : K} {R : K → K → Prop} {s0 : TimeStepState K σ} {t0 : K}
    (I : K → TimeStepState K σ → Prop) (h0 : I t0 s0)
    (hloop : ∀ cur t1 s fuel sol s', I cur s → R cur t1 → cfg.loop fuel s t1 eps = some (sol, s') → I t1 s')
    (hout : ∀ cur t1 s fuel sol s', I cur s → R cur t1 → cfg.loop fuel s t1 eps = some (sol, s') →
      I t1 { s' with trace := Event.output t1 sol :: s'.trace })
    {cur : K} {s : TimeStepState K σ} (h : Reach cfg eps R s0 t0 cur s) : I cur s := by
  induction h with
  | init => exact h0
  | loop _ hR hl ih => exact hloop _ _ _ _ _ _ ih hR hl
  | out _ hR hl ih => exact hout _ _ _ _ _ _ ih hR hl

theorem Reach.mono {cfg : Cfg K σ} {eps : K} {R R' : K → K → Prop} (hRR : ∀ a b, R a b → R' a b)
    {s0 : TimeStepState K σ} {t0 cur : K} {s : TimeStepState K σ}
    (h : Reach cfg eps R s0 t0 cur s) : Reach cfg eps R' s0 t0 cur s := by
  induction h with
  | init => exact Reach.init
  | loop _ hR hl ih => exact Reach.loop ih (hRR _ _ hR) hl
  | out _ hR hl ih => exact Reach.out ih (hRR _ _ hR) hl

/-! ### the solvers only produce reachable states -/

theorem advanceWhile_false (cfg : Cfg K σ) (fuelR : Nat) (t eps : K) (fuel : Nat) (sol : LSolState K)
    (st : TimeStepState K σ) : cfg.advanceWhile fuelR t eps fuel false sol st = some (sol, st) := by
  cases fuel <;> rfl

/-- `advance` ends with a `loop` call after which the checkpoint is no longer ahead -/
theorem advanceWhile_last (cfg : Cfg K σ) (eps : K) (R : K → K → Prop) (s0 : TimeStepState K σ) (t0 : K)
    (fuelR : Nat) (t1 : K) (hrefl : R t1 t1) :
    ∀ (fuelA : Nat) (cur : K) (st : TimeStepState K σ) (sol sol' : LSolState K) (st' : TimeStepState K σ),
      Reach cfg eps R s0 t0 cur st → R cur t1 →
      cfg.advanceWhile fuelR t1 eps fuelA true sol st = some (sol', st') →
      ∃ cur' sl, Reach cfg eps R s0 t0 cur' sl ∧ R cur' t1 ∧ cfg.loop fuelR sl t1 eps = some (sol', st') ∧
        ¬ st'.stepFrom.t + eps < t1 := by
  intro fuelA
  induction fuelA with
  | zero => intro cur st sol sol' st' _ _ h; simp [Cfg.advanceWhile] at h
  | succ n ih =>
    intro cur st sol sol' st' hreach hR h
    unfold Cfg.advanceWhile at h
    split at h
    · cases h
    · next sol1 st1 hl =>
      by_cases hgo : st1.stepFrom.t + eps < t1
      · rw [decide_eq_true hgo] at h
        exact ih t1 st1 sol1 sol' st' (Reach.loop hreach hR hl) hrefl h
      · rw [decide_eq_false hgo, advanceWhile_false] at h
        cases h
        exact ⟨cur, st, hreach, hR, hl, hgo⟩

/-- non-decreasing targets along a list, starting from `a` -/
def ChainR (R : K → K → Prop) : K → List K → Prop
  | _, [] => True
  | a, b :: l => R a b ∧ ChainR R b l

theorem chainR_of_pairwise (t0 : K) (ts : List K) (h : (t0 :: ts).Pairwise (· ≤ ·)) : ChainR (· ≤ ·) t0 ts := by
  induction ts generalizing t0 with
  | nil => trivial
  | cons b l ih =>
    rw [List.pairwise_cons] at h
    exact ⟨h.1 b (List.mem_cons_self ..), ih b h.2⟩

theorem chainR_true (t0 : K) (ts : List K) : ChainR (fun _ _ => True) t0 ts := by
  induction ts generalizing t0 with
  | nil => trivial
  | cons b l ih => exact ⟨trivial, ih b⟩

/-- per-checkpoint post-condition delivered by `scan`: the solution was produced by a `loop` call from a
reachable state, after which the checkpoint is no longer ahead, and then logged -/
def Reported (cfg : Cfg K σ) (eps : K) (R : K → K → Prop) (s0 : TimeStepState K σ) (t0 : K) (fuelR : Nat)
    (tk : K) (y : LSolState K) : Prop :=
  ∃ cur sl st', Reach cfg eps R s0 t0 cur sl ∧ R cur tk ∧ cfg.loop fuelR sl tk eps = some (y, st') ∧
    ¬ st'.stepFrom.t + eps < tk


/-! ## elementary facts about traces -/

theorem stepAttempt_trace (cfg : Cfg K σ) (t1 : K) (r : RejState K σ) :
    (cfg.stepAttempt t1 r).trace =
      Event.attempt (cfg.mkAttempt t1 r.stepFrom r.errorStepFrom r.dt r.control) :: r.trace := rfl

theorem interpolate_trace (cfg : Cfg K σ) (s : TimeStepState K σ) (t1 eps : K) :
    ∃ b, (cfg.interpolate s t1 eps).2.trace = Event.interp b t1 s.interpFrom s.stepFrom :: s.trace := by
  rcases interpolate_cases cfg s t1 eps with ⟨_, h⟩ | ⟨_, _, h⟩ | ⟨_, _, h⟩ <;> rw [h]
  · exact ⟨0, rfl⟩
  · exact ⟨1, rfl⟩
  · exact ⟨2, rfl⟩

theorem adjacent_cons (P : Event K σ → Event K σ → Prop) (e : Event K σ) (tl : List (Event K σ)) :
    Adjacent P (e :: tl) ↔ (∀ e1 tl', tl = e1 :: tl' → P e1 e) ∧ Adjacent P tl := Iff.rfl

/-- `loop` never logs an output itself -/
theorem loop_outputsOf (cfg : Cfg K σ) {fuel : Nat} {s s' : TimeStepState K σ} {t1 eps : K} {sol : LSolState K}
    (h : cfg.loop fuel s t1 eps = some (sol, s')) : outputsOf s'.trace = outputsOf s.trace := by
  obtain ⟨sm, hsm, hint⟩ := loop_cases cfg h
  have hmid : outputsOf sm.trace = outputsOf s.trace := by
    rcases hsm with ⟨_, hst⟩ | ⟨_, rfl⟩
    · obtain ⟨r, hr, _, rfl⟩ := step_ind cfg t1 s sm fuel (fun r => outputsOf r.trace = outputsOf s.trace) rfl
        (fun r hr _ => by rw [stepAttempt_trace]; exact hr) hst
      exact hr
    · rfl
  obtain ⟨b, hb⟩ := interpolate_trace cfg sm t1 eps
  have : s' = (cfg.interpolate sm t1 eps).2 := congrArg Prod.snd hint
  rw [this, hb]; exact hmid

/-! ### the solvers only produce reachable states (continued) -/

theorem scan_reach (cfg : Cfg K σ) (eps : K) (R : K → K → Prop) (hrefl : ∀ a, R a a)
    (s0 : TimeStepState K σ) (t0 : K) (fuelA fuelR : Nat) :
    ∀ (ts : List K) (cur : K) (c : LSolState K × TimeStepState K σ) (ys : List (LSolState K))
      (cf : LSolState K × TimeStepState K σ),
      Reach cfg eps R s0 t0 cur c.2 → ChainR R cur ts → cfg.scan fuelA fuelR eps ts c = some (ys, cf) →
      (∃ cur', Reach cfg eps R s0 t0 cur' cf.2) ∧
      List.Forall₂ (Reported cfg eps R s0 t0 fuelR) ts ys ∧
      outputsOf cf.2.trace = outputsOf c.2.trace ++ List.zip ts ys := by
  intro ts
  induction ts with
  | nil =>
    intro cur c ys cf hreach _ h
    simp only [Cfg.scan] at h
    injection h with h
    injection h with h1 h2
    subst h1; subst h2
    exact ⟨⟨cur, hreach⟩, List.Forall₂.nil, by simp⟩
  | cons t ts ih =>
    intro cur c ys cf hreach hchain h
    obtain ⟨hR, hchain'⟩ := hchain
    unfold Cfg.scan at h
    split at h
    · cases h
    · next c' hadv =>
      split at h
      · cases h
      · next ys' cf' hscan =>
        injection h with h
        injection h with h1 h2
        subst h1; subst h2
        unfold Cfg.advance at hadv
        split at hadv
        · cases hadv
        · next sol st haw =>
          injection hadv with hadv
          subst hadv
          obtain ⟨cur', sl, hreach', hR', hl, hnb⟩ :=
            advanceWhile_last cfg eps R s0 t0 fuelR t (hrefl t) fuelA cur c.2 c.1 sol st hreach hR haw
          have hr2 : Reach cfg eps R s0 t0 t { st with trace := Event.output t sol :: st.trace } :=
            Reach.out hreach' hR' hl
          obtain ⟨h1, h2, h3⟩ := ih t _ ys' cf' hr2 hchain' hscan
          refine ⟨h1, List.Forall₂.cons ⟨cur', sl, st, hreach', hR', hl, hnb⟩ h2, ?_⟩
          rw [h3]
          -- outputs logged by `advance`: those of the state before, plus this one
          have hout : outputsOf st.trace = outputsOf c.2.trace := by
            clear h3 hscan ih hr2 hl hnb hreach' hR'
            -- `advanceWhile` only calls `loop`
            have key : ∀ (fuelA : Nat) (go : Bool) (sol0 : LSolState K) (st0 : TimeStepState K σ),
                cfg.advanceWhile fuelR t eps fuelA go sol0 st0 = some (sol, st) →
                outputsOf st.trace = outputsOf st0.trace := by
              intro fuelA
              induction fuelA with
              | zero =>
                intro go sol0 st0 h
                cases go
                · rw [advanceWhile_false] at h; injection h with h; injection h with _ h2; rw [h2]
                · simp [Cfg.advanceWhile] at h
              | succ n ihn =>
                intro go sol0 st0 h
                cases go
                · rw [advanceWhile_false] at h; injection h with h; injection h with _ h2; rw [h2]
                · unfold Cfg.advanceWhile at h
                  split at h
                  · cases h
                  · next sol1 st1 hl1 => rw [ihn _ _ _ h, loop_outputsOf cfg hl1]
            exact key fuelA true c.1 c.2 haw
          simp [outputsOf, hout, List.zip_cons_cons]

theorem solveSaveAt_reach (cfg : Cfg K σ) (eps : K) (R : K → K → Prop) (hrefl : ∀ a, R a a)
    (fuelA fuelR u : Nat) (t0 : K) (ts : List K) (dt0 : K) (res : SolveResult K σ)
    (hchain : ChainR R t0 ts)
    (h : cfg.solveSaveAt fuelA fuelR u (t0 :: ts) dt0 eps = some res) :
    res.solution0 = cfg.solver.init t0 u ∧
    (∃ cur, Reach cfg eps R (cfg.init (cfg.solver.init t0 u) dt0) t0 cur res.final) ∧
    List.Forall₂ (Reported cfg eps R (cfg.init (cfg.solver.init t0 u) dt0) t0 fuelR) ts res.solution ∧
    outputsOf res.final.trace = List.zip ts res.solution := by
  unfold Cfg.solveSaveAt at h
  simp only at h
  split at h
  · cases h
  · next ys cf hscan =>
    injection h with h
    subst h
    obtain ⟨h1, h2, h3⟩ := scan_reach cfg eps R hrefl (cfg.init (cfg.solver.init t0 u) dt0) t0 fuelA fuelR ts t0
      (cfg.solver.init t0 u, cfg.init (cfg.solver.init t0 u) dt0) ys cf Reach.init hchain hscan
    refine ⟨rfl, h1, h2, ?_⟩
    rw [h3]
    simp [Cfg.init, outputsOf]

theorem everyStepWhile_reach (cfg : Cfg K σ) (withEps : Bool) (eps : K) (R : K → K → Prop) (hrefl : ∀ a, R a a)
    (s0 : TimeStepState K σ) (t0 : K) (fuelR : Nat) (t1 : K) :
    ∀ (fuel : Nat) (cur : K) (st : TimeStepState K σ) (ys : List (LSolState K)) (sf : TimeStepState K σ),
      Reach cfg eps R s0 t0 cur st → R cur t1 → cfg.everyStepWhile withEps fuelR t1 eps fuel st = some (ys, sf) →
      (∃ cur', Reach cfg eps R s0 t0 cur' sf) ∧ everyStepCond withEps sf.stepFrom.t eps t1 = false ∧
      outputsOf sf.trace = outputsOf st.trace ++ ys.map (fun y => (t1, y)) ∧
      (ys ≠ [] → ∃ cur' sl st' y fuel', Reach cfg eps R s0 t0 cur' sl ∧ cfg.loop fuel' sl t1 eps = some (y, st') ∧
        ys.getLast? = some y ∧ sf.stepFrom = st'.stepFrom) := by
  intro fuel
  induction fuel with
  | zero =>
    intro cur st ys sf hreach _ h
    unfold Cfg.everyStepWhile at h
    split at h
    · cases h
    · injection h with h; injection h with h1 h2; subst h1; subst h2
      exact ⟨⟨cur, hreach⟩, Bool.eq_false_iff.mpr ‹_›, by simp, fun hne => absurd rfl hne⟩
  | succ n ih =>
    intro cur st ys sf hreach hR h
    unfold Cfg.everyStepWhile at h
    split at h
    · split at h
      · cases h
      · next sol st' hl =>
        split at h
        · cases h
        · next ys' sf' hrec =>
          injection h with h; injection h with h1 h2; subst h1; subst h2
          obtain ⟨g1, g2, g3, g4⟩ := ih t1 _ ys' sf' (Reach.out hreach hR hl) (hrefl t1) hrec
          refine ⟨g1, g2, ?_, ?_⟩
          · rw [g3]
            simp [outputsOf, loop_outputsOf cfg hl]
          · intro _
            by_cases hys : ys' = []
            · subst hys
              -- the recursive call returned immediately: its input state is the final state
              have hsf : sf' = { st' with trace := Event.output t1 sol :: st'.trace } := by
                cases n with
                | zero =>
                  unfold Cfg.everyStepWhile at hrec
                  split at hrec
                  · cases hrec
                  · injection hrec with hrec; injection hrec with _ h2; exact h2.symm
                | succ m =>
                  unfold Cfg.everyStepWhile at hrec
                  split at hrec
                  · split at hrec
                    · cases hrec
                    · split at hrec
                      · cases hrec
                      · injection hrec with hrec; injection hrec with h1 _; cases h1
                  · injection hrec with hrec; injection hrec with _ h2; exact h2.symm
              exact ⟨cur, st, st', sol, fuelR, hreach, hl, by simp, by rw [hsf]⟩
            · obtain ⟨c', sl, st'', y, f', k1, k2, k3, k4⟩ := g4 hys
              refine ⟨c', sl, st'', y, f', k1, k2, ?_, k4⟩
              rw [List.getLast?_cons_of_ne_nil hys] <;> exact k3
    · injection h with h; injection h with h1 h2; subst h1; subst h2
      exact ⟨⟨cur, hreach⟩, Bool.eq_false_iff.mpr ‹_›, by simp, fun hne => absurd rfl hne⟩

theorem solveEveryStep_reach (cfg : Cfg K σ) (withEps : Bool) (eps : K) (R : K → K → Prop) (hrefl : ∀ a, R a a)
    (fuelA fuelR u : Nat) (t0 t1 dt0 : K) (res : SolveResult K σ) (hR : R t0 t1)
    (h : cfg.solveEveryStep withEps fuelA fuelR u t0 t1 dt0 eps = some res) :
    res.solution0 = cfg.solver.init t0 u ∧
    (∃ cur, Reach cfg eps R (cfg.init (cfg.solver.init t0 u) dt0) t0 cur res.final) ∧
    everyStepCond withEps res.final.stepFrom.t eps t1 = false ∧
    outputsOf res.final.trace = res.solution.map (fun y => (t1, y)) ∧
    (res.solution ≠ [] → ∃ cur' sl st' y fuel',
      Reach cfg eps R (cfg.init (cfg.solver.init t0 u) dt0) t0 cur' sl ∧ cfg.loop fuel' sl t1 eps = some (y, st') ∧
      res.solution.getLast? = some y ∧ res.final.stepFrom = st'.stepFrom) := by
  unfold Cfg.solveEveryStep at h
  simp only at h
  split at h
  · cases h
  · next ys sf hw =>
    injection h with h
    subst h
    obtain ⟨h1, h2, h3, h4⟩ := everyStepWhile_reach cfg withEps eps R hrefl (cfg.init (cfg.solver.init t0 u) dt0) t0
      fuelR t1 fuelA t0 _ ys sf Reach.init hR hw
    refine ⟨rfl, h1, h2, ?_, h4⟩
    rw [h3]; simp [Cfg.init, outputsOf]

theorem loopSeq_reach (cfg : Cfg K σ) (eps : K) (s0 : TimeStepState K σ) (t0 : K) (fuelR : Nat) :
    ∀ (ts : List K) (cur : K) (st : TimeStepState K σ) (ys : List (LSolState K)) (sf : TimeStepState K σ),
      Reach cfg eps (fun _ _ => True) s0 t0 cur st → cfg.loopSeq fuelR eps ts st = some (ys, sf) →
      (∃ cur', Reach cfg eps (fun _ _ => True) s0 t0 cur' sf) ∧
      outputsOf sf.trace = outputsOf st.trace ++ List.zip ts ys ∧ ys.length = ts.length := by
  intro ts
  induction ts with
  | nil =>
    intro cur st ys sf hreach h
    simp only [Cfg.loopSeq] at h
    injection h with h; injection h with h1 h2; subst h1; subst h2
    exact ⟨⟨cur, hreach⟩, by simp, rfl⟩
  | cons t ts ih =>
    intro cur st ys sf hreach h
    unfold Cfg.loopSeq at h
    split at h
    · cases h
    · next sol st' hl =>
      split at h
      · cases h
      · next ys' sf' hrec =>
        injection h with h; injection h with h1 h2; subst h1; subst h2
        obtain ⟨g1, g2, g3⟩ := ih t _ ys' sf' (Reach.out hreach trivial hl) hrec
        refine ⟨g1, ?_, by simp [g3]⟩
        rw [g2]
        simp [outputsOf, loop_outputsOf cfg hl, List.zip_cons_cons]

end Pdq
