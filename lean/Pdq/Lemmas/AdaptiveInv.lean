import Pdq.Lemmas.Adaptive
import Mathlib.Tactic.Ring

/-!
# Invariants of the reachable states of the adaptive state machine

`Struct` (shape of the trace, no hypotheses), `Sums` (time and step counter are sums over accepted
attempts; needs the solver laws and `seed < 1`), `Pos` (positive step sizes, controller invariant,
interpolation brackets; needs admissible controller, `0 ≤ eps`, non-decreasing targets).
-/
set_option linter.unusedSectionVars false
namespace Pdq
variable {K : Type} [Field K] [LinearOrder K] [IsStrictOrderedRing K] {σ : Type}

/-! ## `Struct` -/

structure Struct (cfg : Cfg K σ) (s : TimeStepState K σ) : Prop where
  wf : ∀ a, Event.attempt a ∈ s.trace → AttemptWF cfg a
  chain : RejChain cfg s.trace
  head : HeadNotRejected s.trace

/-- appending a non-attempt event to a well-shaped trace -/
theorem struct_cons_other (cfg : Cfg K σ) (tr : List (Event K σ)) (e : Event K σ)
    (hne : ∀ a, e ≠ Event.attempt a)
    (wf : ∀ a, Event.attempt a ∈ tr → AttemptWF cfg a) (chain : RejChain cfg tr) (head : HeadNotRejected tr) :
    (∀ a, Event.attempt a ∈ e :: tr → AttemptWF cfg a) ∧ RejChain cfg (e :: tr) ∧ HeadNotRejected (e :: tr) := by
  refine ⟨?_, ?_, ?_⟩
  · intro a ha
    rcases List.mem_cons.mp ha with h | h
    · exact absurd h.symm (hne a)
    · exact wf a h
  · refine (adjacent_cons _ _ _).mpr ⟨?_, chain⟩
    intro e1 tl' htr a1 he1 hrej
    subst he1
    exact absurd hrej (head a1 tl' htr)
  · intro a tl h
    injection h with h1 _
    exact absurd h1 (hne a)

/-- invariant of the rejection loop used for `Struct` -/
def StructRej (cfg : Cfg K σ) (t1 : K) (r : RejState K σ) : Prop :=
  (∀ a, Event.attempt a ∈ r.trace → AttemptWF cfg a) ∧ RejChain cfg r.trace ∧
  (∀ a tl, r.trace = Event.attempt a :: tl → a.ep < 1 →
    r.acceptanceFactorProposed = a.ep ∧ r.dt = a.dtNew ∧ r.control = a.cOut ∧ r.stepFrom = a.src ∧
    r.errorStepFrom = a.esIn ∧ a.t1 = t1)

theorem structRej_step (cfg : Cfg K σ) (t1 : K) (r : RejState K σ) (h : StructRej cfg t1 r) :
    StructRej cfg t1 (cfg.stepAttempt t1 r) := by
  obtain ⟨wf, chain, cur⟩ := h
  refine ⟨?_, ?_, ?_⟩
  · intro a ha
    rw [stepAttempt_trace] at ha
    rcases List.mem_cons.mp ha with h | h
    · injection h with h; subst h; exact ⟨r.dt, rfl⟩
    · exact wf a h
  · rw [stepAttempt_trace]
    refine (adjacent_cons _ _ _).mpr ⟨?_, chain⟩
    intro e1 tl' htr a1 he1 hrej
    subst he1
    obtain ⟨_, h2, h3, h4, h5, h6⟩ := cur a1 tl' htr hrej
    rw [h2, h3, h4, h5, h6]
  · intro a tl h _
    rw [stepAttempt_trace] at h
    injection h with h1 _
    injection h1 with h1
    subst h1
    exact ⟨rfl, rfl, rfl, rfl, rfl, rfl⟩

theorem struct_loop (cfg : Cfg K σ) {fuel : Nat} {s s' : TimeStepState K σ} {t1 eps : K} {sol : LSolState K}
    (hs : Struct cfg s) (h : cfg.loop fuel s t1 eps = some (sol, s')) : Struct cfg s' := by
  obtain ⟨sm, hsm, hint⟩ := loop_cases cfg h
  have hmid : Struct cfg sm := by
    rcases hsm with ⟨_, hst⟩ | ⟨_, rfl⟩
    · obtain ⟨r, ⟨wf, chain, cur⟩, hacc, rfl⟩ := step_ind cfg t1 s sm fuel (StructRej cfg t1)
        ⟨hs.wf, hs.chain, fun a tl htr hrej => absurd hrej (hs.head a tl htr)⟩
        (fun r hr _ => structRej_step cfg t1 r hr) hst
      refine ⟨wf, chain, ?_⟩
      intro a tl htr hrej
      have := (cur a tl htr hrej).1
      exact hacc (this ▸ hrej)
    · exact hs
  obtain ⟨b, hb⟩ := interpolate_trace cfg sm t1 eps
  have e : s' = (cfg.interpolate sm t1 eps).2 := congrArg Prod.snd hint
  obtain ⟨h1, h2, h3⟩ := struct_cons_other cfg sm.trace (Event.interp b t1 sm.interpFrom sm.stepFrom)
    (fun a h => by cases h) hmid.wf hmid.chain hmid.head
  rw [e]
  exact ⟨hb ▸ h1, hb ▸ h2, hb ▸ h3⟩

theorem struct_out (cfg : Cfg K σ) {s : TimeStepState K σ} (t1 : K) (sol : LSolState K) (hs : Struct cfg s) :
    Struct cfg { s with trace := Event.output t1 sol :: s.trace } := by
  obtain ⟨h1, h2, h3⟩ := struct_cons_other cfg s.trace (Event.output t1 sol) (fun a h => by cases h)
    hs.wf hs.chain hs.head
  exact ⟨h1, h2, h3⟩

theorem Reach.struct {cfg : Cfg K σ} {eps : K} {R : K → K → Prop} {s0 : TimeStepState K σ} {t0 cur : K}
    {s : TimeStepState K σ} (h0 : Struct cfg s0) (h : Reach cfg eps R s0 t0 cur s) : Struct cfg s :=
  Reach.inv (fun _ s => Struct cfg s) h0
    (fun _ _ _ _ _ _ hI _ hl => struct_loop cfg hI hl)
    (fun _ t1 _ _ sol _ hI _ hl => struct_out cfg t1 sol (struct_loop cfg hI hl)) h

theorem struct_init (cfg : Cfg K σ) (sol0 : LSolState K) (dt0 : K) : Struct cfg (cfg.init sol0 dt0) :=
  ⟨fun a h => by simp [Cfg.init] at h, by simp [Cfg.init, RejChain, Adjacent], by
    intro a tl h; simp [Cfg.init] at h⟩

/-! ## `Sums` -/

structure Sums (T0 : K) (N0 : Nat) (s : TimeStepState K σ) : Prop where
  time : s.stepFrom.t = T0 + accSum s.trace
  steps : s.stepFrom.numSteps = N0 + accCount s.trace
  outs : OutputsOK N0 s.trace

/-- invariant of the rejection loop used for `Sums` (relative to the state `s` the loop started from) -/
def SumsRej (N0 : Nat) (s : TimeStepState K σ) (r : RejState K σ) : Prop :=
  r.stepFrom = s.stepFrom ∧ OutputsOK N0 r.trace ∧
  (r.acceptanceFactorProposed < 1 → accSum r.trace = accSum s.trace ∧ accCount r.trace = accCount s.trace) ∧
  (¬ r.acceptanceFactorProposed < 1 →
    r.proposed.t + accSum s.trace = s.stepFrom.t + accSum r.trace ∧
    r.proposed.numSteps + accCount s.trace = s.stepFrom.numSteps + accCount r.trace)

theorem sumsRej_step (cfg : Cfg K σ) (hlaws : SolverLaws cfg.solver) (N0 : Nat) (s : TimeStepState K σ) (t1 : K)
    (r : RejState K σ) (h : SumsRej N0 s r) (hacc : r.acceptanceFactorProposed < 1) :
    SumsRej N0 s (cfg.stepAttempt t1 r) := by
  obtain ⟨h1, h2, h3, _⟩ := h
  obtain ⟨h3a, h3b⟩ := h3 hacc
  refine ⟨h1, ?_, ?_, ?_⟩
  · rw [stepAttempt_trace]; exact h2
  · intro hlt
    rw [stepAttempt_trace]
    have hlt' : (cfg.mkAttempt t1 r.stepFrom r.errorStepFrom r.dt r.control).ep < 1 := hlt
    simp only [accSum, accCount, if_pos hlt']
    exact ⟨h3a, h3b⟩
  · intro hnlt
    rw [stepAttempt_trace]
    have hnlt' : ¬ (cfg.mkAttempt t1 r.stepFrom r.errorStepFrom r.dt r.control).ep < 1 := hnlt
    simp only [accSum, accCount, if_neg hnlt']
    have ht : (cfg.stepAttempt t1 r).proposed.t
        = r.stepFrom.t + (cfg.mkAttempt t1 r.stepFrom r.errorStepFrom r.dt r.control).dt := hlaws.step_t _ _
    have hn : (cfg.stepAttempt t1 r).proposed.numSteps = r.stepFrom.numSteps + 1 := hlaws.step_n _ _
    rw [ht, hn, h1, h3a, h3b]
    constructor
    · ring
    · omega

theorem interpolate_stepFrom (cfg : Cfg K σ) (hlaws : SolverLaws cfg.solver) (s : TimeStepState K σ) (t1 eps : K) :
    (cfg.interpolate s t1 eps).2.stepFrom.t = s.stepFrom.t ∧
    (cfg.interpolate s t1 eps).2.stepFrom.numSteps = s.stepFrom.numSteps ∧
    (cfg.interpolate s t1 eps).1.numSteps = s.stepFrom.numSteps := by
  rcases interpolate_cases cfg s t1 eps with ⟨_, h⟩ | ⟨_, _, h⟩ | ⟨_, _, h⟩ <;> rw [h]
  · exact ⟨rfl, rfl, rfl⟩
  · exact ⟨hlaws.fwd_stepFrom_t _ _ _, hlaws.fwd_stepFrom_n _ _ _, hlaws.fwd_sol_n _ _ _⟩
  · exact ⟨hlaws.at_stepFrom_t _ _ _, hlaws.at_stepFrom_n _ _ _, hlaws.at_sol_n _ _ _⟩

theorem sums_loop (cfg : Cfg K σ) (hlaws : SolverLaws cfg.solver) (hseed : cfg.seed < 1) (T0 : K) (N0 : Nat)
    {fuel : Nat} {s s' : TimeStepState K σ} {t1 eps : K} {sol : LSolState K}
    (hs : Sums T0 N0 s) (h : cfg.loop fuel s t1 eps = some (sol, s')) :
    Sums T0 N0 s' ∧ sol.numSteps = s'.stepFrom.numSteps := by
  obtain ⟨sm, hsm, hint⟩ := loop_cases cfg h
  have hmid : Sums T0 N0 sm := by
    rcases hsm with ⟨_, hst⟩ | ⟨_, rfl⟩
    · obtain ⟨r, ⟨_, g2, _, g4⟩, hacc, rfl⟩ := step_ind cfg t1 s sm fuel (SumsRej N0 s)
        ⟨rfl, hs.outs, fun _ => ⟨rfl, rfl⟩, fun hn => absurd hseed hn⟩
        (fun r hr ha => sumsRej_step cfg hlaws N0 s t1 r hr ha) hst
      obtain ⟨g4a, g4b⟩ := g4 hacc
      refine ⟨?_, ?_, g2⟩
      · show r.proposed.t = T0 + accSum r.trace
        have := hs.time
        linarith
      · show r.proposed.numSteps = N0 + accCount r.trace
        have := hs.steps
        omega
    · exact hs
  obtain ⟨b, hb⟩ := interpolate_trace cfg sm t1 eps
  obtain ⟨i1, i2, i3⟩ := interpolate_stepFrom cfg hlaws sm t1 eps
  have e2 : s' = (cfg.interpolate sm t1 eps).2 := congrArg Prod.snd hint
  have e1 : sol = (cfg.interpolate sm t1 eps).1 := congrArg Prod.fst hint
  rw [e1, e2]
  refine ⟨⟨?_, ?_, ?_⟩, by rw [i3, i2]⟩
  · rw [i1, hb]; simpa [accSum] using hmid.time
  · rw [i2, hb]; simpa [accCount] using hmid.steps
  · rw [hb]; exact hmid.outs

theorem sums_out (T0 : K) (N0 : Nat) {s : TimeStepState K σ} (t1 : K) (sol : LSolState K) (hs : Sums T0 N0 s)
    (hsol : sol.numSteps = s.stepFrom.numSteps) :
    Sums T0 N0 { s with trace := Event.output t1 sol :: s.trace } :=
  ⟨by simpa [accSum] using hs.time, by simpa [accCount] using hs.steps,
   ⟨by rw [hsol]; exact hs.steps, hs.outs⟩⟩

theorem Reach.sums {cfg : Cfg K σ} (hlaws : SolverLaws cfg.solver) (hseed : cfg.seed < 1) {eps : K}
    {R : K → K → Prop} {s0 : TimeStepState K σ} {t0 cur : K} {s : TimeStepState K σ} (T0 : K) (N0 : Nat)
    (h0 : Sums T0 N0 s0) (h : Reach cfg eps R s0 t0 cur s) : Sums T0 N0 s :=
  Reach.inv (fun _ s => Sums T0 N0 s) h0
    (fun _ _ _ _ _ _ hI _ hl => (sums_loop cfg hlaws hseed T0 N0 hI hl).1)
    (fun _ t1 _ _ sol _ hI _ hl =>
      sums_out T0 N0 t1 sol (sums_loop cfg hlaws hseed T0 N0 hI hl).1 (sums_loop cfg hlaws hseed T0 N0 hI hl).2) h

theorem sums_init (cfg : Cfg K σ) (sol0 : LSolState K) (dt0 : K) :
    Sums sol0.t sol0.numSteps (cfg.init sol0 dt0) :=
  ⟨by simp [Cfg.init, accSum], by simp [Cfg.init, accCount], by simp [Cfg.init, OutputsOK]⟩

/-! ## `Pos` -/

/-- positivity of step sizes, controller invariant, and (under the guard `B`: targets are non-decreasing)
the interpolation bracket; `cur` is the latest target -/
structure Pos (eps : K) (Inv : σ → Prop) (B : Prop) (cur : K) (s : TimeStepState K σ) : Prop where
  dt_pos : 0 < s.dt
  ctl_inv : Inv s.control
  attempts : ∀ a, Event.attempt a ∈ s.trace → 0 < a.dt ∧ Inv a.cIn
  ordered : B → s.interpFrom.t ≤ s.stepFrom.t
  bracket : B → s.interpFrom.t ≤ cur ∨ s.stepFrom.t ≤ cur + eps
  interps : B → ∀ t1 f g, Event.interp 1 t1 f g ∈ s.trace → f.t ≤ t1 ∧ t1 ≤ g.t

def PosRej (Inv : σ → Prop) (B : Prop) (s : TimeStepState K σ) (r : RejState K σ) : Prop :=
  0 < r.dt ∧ Inv r.control ∧ r.stepFrom = s.stepFrom ∧
  (∀ a, Event.attempt a ∈ r.trace → 0 < a.dt ∧ Inv a.cIn) ∧
  (B → ∀ t1 f g, Event.interp 1 t1 f g ∈ r.trace → f.t ≤ t1 ∧ t1 ≤ g.t) ∧
  (¬ r.acceptanceFactorProposed < 1 → s.stepFrom.t < r.proposed.t)

theorem clipDt_pos (cfg : Cfg K σ) (t1 : K) (src : LSolState K) (dtIn : K) (hdt : 0 < dtIn) (hb : src.t < t1) :
    0 < cfg.clipDt t1 src dtIn := by
  unfold Cfg.clipDt
  split
  · exact lt_min hdt (sub_pos.mpr hb)
  · exact hdt

theorem clipDt_le (cfg : Cfg K σ) (t1 : K) (src : LSolState K) (dtIn : K) : cfg.clipDt t1 src dtIn ≤ dtIn := by
  unfold Cfg.clipDt
  split
  · exact min_le_left _ _
  · exact le_refl _

theorem posRej_step (cfg : Cfg K σ) (hlaws : SolverLaws cfg.solver) (Inv : σ → Prop) (B : Prop) (hpos : CtlPos cfg.ctl)
    (hinv : CtlInv cfg.ctl Inv) (s : TimeStepState K σ) (t1 : K) (hb : s.stepFrom.t < t1)
    (r : RejState K σ) (h : PosRej Inv B s r) : PosRej Inv B s (cfg.stepAttempt t1 r) := by
  obtain ⟨h1, h2, h3, h4, h5, _⟩ := h
  have hdt : 0 < (cfg.mkAttempt t1 r.stepFrom r.errorStepFrom r.dt r.control).dt :=
    clipDt_pos cfg t1 r.stepFrom r.dt h1 (h3 ▸ hb)
  refine ⟨hpos _ _ _ hdt, hinv.2 _ _ _ h2, h3, ?_, ?_, ?_⟩
  · intro a ha
    rw [stepAttempt_trace] at ha
    rcases List.mem_cons.mp ha with h | h
    · injection h with h; subst h; exact ⟨hdt, h2⟩
    · exact h4 a h
  · intro hB t1' f g hm
    rw [stepAttempt_trace] at hm
    rcases List.mem_cons.mp hm with h | h
    · cases h
    · exact h5 hB _ _ _ h
  · intro _
    have ht : (cfg.stepAttempt t1 r).proposed.t
        = r.stepFrom.t + (cfg.mkAttempt t1 r.stepFrom r.errorStepFrom r.dt r.control).dt := hlaws.step_t _ _
    rw [ht, ← h3]
    linarith

theorem pos_loop (cfg : Cfg K σ) (hlaws : SolverLaws cfg.solver) (hseed : cfg.seed < 1) (Inv : σ → Prop) (B : Prop)
    (hpos : CtlPos cfg.ctl) (hinv : CtlInv cfg.ctl Inv) {eps : K} (heps : 0 ≤ eps)
    {fuel : Nat} {s s' : TimeStepState K σ} {cur t1 : K} {sol : LSolState K} (hle : B → cur ≤ t1)
    (hs : Pos eps Inv B cur s) (h : cfg.loop fuel s t1 eps = some (sol, s')) : Pos eps Inv B t1 s' := by
  obtain ⟨sm, hsm, hint⟩ := loop_cases cfg h
  have hmid : Pos eps Inv B t1 sm := by
    rcases hsm with ⟨hbefore, hst⟩ | ⟨_, rfl⟩
    · have hb : s.stepFrom.t < t1 := by linarith
      obtain ⟨r, ⟨g1, g2, g3, g4, g5, g6⟩, hacc, rfl⟩ := step_ind cfg t1 s sm fuel (PosRej Inv B s)
        ⟨hs.dt_pos, hs.ctl_inv, rfl, hs.attempts, hs.interps, fun hn => absurd hseed hn⟩
        (fun r hr _ => posRej_step cfg hlaws Inv B hpos hinv s t1 hb r hr) hst
      refine ⟨g1, g2, g4, ?_, ?_, g5⟩
      · intro _
        show r.stepFrom.t ≤ r.proposed.t
        rw [g3]; exact (g6 hacc).le
      · intro _
        left
        show r.stepFrom.t ≤ t1
        rw [g3]; exact hb.le
    · refine ⟨hs.dt_pos, hs.ctl_inv, hs.attempts, hs.ordered, ?_, hs.interps⟩
      intro hB
      have := hle hB
      rcases hs.bracket hB with h | h
      · left; linarith
      · right; linarith
  have e2 : s' = (cfg.interpolate sm t1 eps).2 := congrArg Prod.snd hint
  rw [e2]
  have hatt : ∀ (e : Event K σ) (_ : ∀ a, e ≠ Event.attempt a) (a : AttemptRec K σ),
      Event.attempt a ∈ e :: sm.trace → 0 < a.dt ∧ Inv a.cIn := by
    intro e hne a ha
    rcases List.mem_cons.mp ha with h | h
    · exact absurd h.symm (hne a)
    · exact hmid.attempts a h
  rcases interpolate_cases cfg sm t1 eps with ⟨_, h⟩ | ⟨_, hafter, h⟩ | ⟨_, hnafter, h⟩ <;> rw [h]
  · refine ⟨hmid.dt_pos, hmid.ctl_inv, hatt _ (fun a h => by cases h), hmid.ordered, hmid.bracket, ?_⟩
    intro hB t1' f g hm
    rcases List.mem_cons.mp hm with h | h
    · cases h
    · exact hmid.interps hB _ _ _ h
  · have hup : t1 ≤ sm.stepFrom.t := by
      have : t1 + eps < sm.stepFrom.t := hafter
      linarith
    refine ⟨hmid.dt_pos, hmid.ctl_inv, hatt _ (fun a h => by cases h), ?_, ?_, ?_⟩
    · intro _
      show (cfg.solver.interpFwd t1 sm.interpFrom sm.stepFrom).interpFrom.t
        ≤ (cfg.solver.interpFwd t1 sm.interpFrom sm.stepFrom).stepFrom.t
      rw [hlaws.fwd_interpFrom_t, hlaws.fwd_stepFrom_t]; exact hup
    · intro _
      left
      show (cfg.solver.interpFwd t1 sm.interpFrom sm.stepFrom).interpFrom.t ≤ t1
      rw [hlaws.fwd_interpFrom_t]
    · intro hB t1' f g hm
      have hbr : sm.interpFrom.t ≤ t1 := by
        rcases hmid.bracket hB with h | h
        · exact h
        · exact absurd hafter (not_lt.mpr h)
      rcases List.mem_cons.mp hm with h | h
      · injection h with _ h2 h3 h4
        subst h2; subst h3; subst h4
        exact ⟨hbr, hup⟩
      · exact hmid.interps hB _ _ _ h
  · refine ⟨hmid.dt_pos, hmid.ctl_inv, hatt _ (fun a h => by cases h), ?_, ?_, ?_⟩
    · intro _
      show (cfg.solver.interpAtT1 t1 sm.interpFrom sm.stepFrom).interpFrom.t
        ≤ (cfg.solver.interpAtT1 t1 sm.interpFrom sm.stepFrom).stepFrom.t
      rw [hlaws.at_interpFrom_t, hlaws.at_stepFrom_t]
    · intro _
      right
      show (cfg.solver.interpAtT1 t1 sm.interpFrom sm.stepFrom).stepFrom.t ≤ t1 + eps
      rw [hlaws.at_stepFrom_t]; exact not_lt.mp hnafter
    · intro hB t1' f g hm
      rcases List.mem_cons.mp hm with h | h
      · cases h
      · exact hmid.interps hB _ _ _ h

theorem pos_out (eps : K) (Inv : σ → Prop) (B : Prop) (cur : K) {s : TimeStepState K σ} (t1 : K) (sol : LSolState K)
    (hs : Pos eps Inv B cur s) : Pos eps Inv B cur { s with trace := Event.output t1 sol :: s.trace } := by
  refine ⟨hs.dt_pos, hs.ctl_inv, ?_, hs.ordered, hs.bracket, ?_⟩
  · intro a ha
    rcases List.mem_cons.mp ha with h | h
    · cases h
    · exact hs.attempts a h
  · intro hB t1' f g hm
    rcases List.mem_cons.mp hm with h | h
    · cases h
    · exact hs.interps hB _ _ _ h

theorem Reach.pos {cfg : Cfg K σ} (hlaws : SolverLaws cfg.solver) (hseed : cfg.seed < 1) (Inv : σ → Prop) (B : Prop)
    (hpos : CtlPos cfg.ctl) (hinv : CtlInv cfg.ctl Inv) {eps : K} (heps : 0 ≤ eps)
    {R : K → K → Prop} (hR : ∀ a b, R a b → B → a ≤ b)
    {s0 : TimeStepState K σ} {t0 cur : K} {s : TimeStepState K σ}
    (h0 : Pos eps Inv B t0 s0) (h : Reach cfg eps R s0 t0 cur s) : Pos eps Inv B cur s :=
  Reach.inv (fun c s => Pos eps Inv B c s) h0
    (fun _ _ _ _ _ _ hI hr hl => pos_loop cfg hlaws hseed Inv B hpos hinv heps (hR _ _ hr) hI hl)
    (fun _ t1 _ _ sol _ hI hr hl =>
      pos_out eps Inv B t1 t1 sol (pos_loop cfg hlaws hseed Inv B hpos hinv heps (hR _ _ hr) hI hl)) h

theorem pos_init (cfg : Cfg K σ) (Inv : σ → Prop) (B : Prop) (hinv : CtlInv cfg.ctl Inv) (eps : K)
    (sol0 : LSolState K) (dt0 : K) (hdt : 0 < dt0) (t0 : K) (ht0 : B → sol0.t ≤ t0) :
    Pos eps Inv B t0 (cfg.init sol0 dt0) :=
  ⟨hdt, hinv.1 dt0, fun a h => by simp [Cfg.init] at h, fun _ => le_refl _, fun hB => Or.inl (ht0 hB),
   fun _ t1 f g h => by simp [Cfg.init] at h⟩

/-! ## the solution handed back for a checkpoint -/

/-- if after a `loop` call the checkpoint is no longer ahead, the returned solution is within `eps` of it -/
theorem loop_output_near (cfg : Cfg K σ) (hlaws : SolverLaws cfg.solver) {eps : K} (heps : 0 ≤ eps)
    {fuel : Nat} {s s' : TimeStepState K σ} {t1 : K} {sol : LSolState K}
    (h : cfg.loop fuel s t1 eps = some (sol, s')) (hnb : ¬ s'.stepFrom.t + eps < t1) :
    |sol.t - t1| ≤ eps := by
  obtain ⟨sm, _, hint⟩ := loop_cases cfg h
  have e2 : s' = (cfg.interpolate sm t1 eps).2 := congrArg Prod.snd hint
  have e1 : sol = (cfg.interpolate sm t1 eps).1 := congrArg Prod.fst hint
  have hst := (interpolate_stepFrom cfg hlaws sm t1 eps).1
  rw [e2, hst] at hnb
  rw [e1]
  rcases interpolate_cases cfg sm t1 eps with ⟨hb, _⟩ | ⟨_, _, h⟩ | ⟨_, hnafter, h⟩
  · exact absurd hb hnb
  · rw [h]
    show |(cfg.solver.interpFwd t1 sm.interpFrom sm.stepFrom).sol.t - t1| ≤ eps
    rw [hlaws.fwd_sol_t, sub_self, abs_zero]; exact heps
  · rw [h]
    show |(cfg.solver.interpAtT1 t1 sm.interpFrom sm.stepFrom).sol.t - t1| ≤ eps
    rw [hlaws.at_sol_t, abs_le]
    have h1 := not_lt.mp hnb
    have h2 : sm.stepFrom.t ≤ t1 + eps := not_lt.mp hnafter
    constructor <;> linarith

/-! ## vocabulary of the property theorems -/

/-- states reachable from `RejectionLoop.init(solution0, dt0)` by `loop` calls whose successive targets are
related by `R` -/
def Run (cfg : Cfg K σ) (eps : K) (R : K → K → Prop) (sol0 : LSolState K) (dt0 t0 : K) (s : TimeStepState K σ) : Prop :=
  ∃ cur, Reach cfg eps R (cfg.init sol0 dt0) t0 cur s

/-- arbitrary targets -/
abbrev AnyT : K → K → Prop := fun _ _ => True

theorem Run.any {cfg : Cfg K σ} {eps : K} {R : K → K → Prop} {sol0 : LSolState K} {dt0 t0 : K}
    {s : TimeStepState K σ} (h : Run cfg eps R sol0 dt0 t0 s) : Run cfg eps AnyT sol0 dt0 t0 s :=
  h.imp fun _ hr => Reach.mono (fun _ _ _ => trivial) hr

theorem adjacent_split {P : Event K σ → Event K σ → Prop} :
    ∀ (pre : List (Event K σ)) {tr post : List (Event K σ)} {e1 e2 : Event K σ},
      Adjacent P tr → tr = pre ++ e2 :: e1 :: post → P e1 e2 := by
  intro pre
  induction pre with
  | nil =>
    intro tr post e1 e2 h htr
    subst htr
    exact ((adjacent_cons P _ _).mp h).1 e1 post rfl
  | cons x pre ih =>
    intro tr post e1 e2 h htr
    subst htr
    exact ih ((adjacent_cons P _ _).mp h).2 rfl

end Pdq
