import Pdq.Model.Iwp
import Pdq.Bridge
import Mathlib.Algebra.Polynomial.Derivative
import Mathlib.Algebra.Polynomial.Taylor
import Mathlib.Algebra.Polynomial.HasseDeriv
import Mathlib.Algebra.Polynomial.Eval.Degree
import Mathlib.Algebra.BigOperators.Field
import Mathlib.Data.Nat.Choose.Sum
import Mathlib.Tactic.FieldSimp
import Mathlib.Tactic.Ring
import Mathlib.Algebra.CharZero.Defs
import Mathlib.Logic.Equiv.Fin.Basic
import Mathlib.Algebra.BigOperators.Fin

/-!
# Pdq.Lemmas.IwpDen — closed form of the de-preconditioned IWP transition, Taylor's formula (for C01)

* the model's `factN`, `chooseN`, `powN` are `Nat.factorial`, `Nat.choose`, `^`;
* `den_A_get`, `den_Q_get`, `den_b`: the entries of `(Iwp.transition1 q h s2).den` are
  `Φ_ij = h^(j-i)/(j-i)!` (upper triangular), `Q_ij = s2 h^(2q+1-i-j)/((2q+1-i-j)(q-i)!(q-j)!)`, offset 0
  (for `h ≠ 0`: the Taylor preconditioner cancels);
* `taylor_sum`: Taylor's formula for polynomials written with iterated derivatives;
* `phi_mulVec_jet`: `Φ(h) · jet_q(p,t) = jet_q(p,t+h)` for `deg p ≤ q`;
* `dense_den_A_get`, `dense_mulVec_jet`: the same for the dense `d`-dimensional transition `kron(Φ, I_d)`.
-/
set_option linter.unusedSectionVars false
open Finset Polynomial

namespace Pdq.IwpDen

theorem factN_eq (n : ℕ) : factN n = n.factorial := by
  induction n with
  | zero => rfl
  | succ n ih => simp [factN, Nat.factorial_succ, ih]

theorem chooseN_eq (n k : ℕ) : chooseN n k = n.choose k := by
  induction n generalizing k with
  | zero => cases k <;> simp [chooseN]
  | succ n ih => cases k with
    | zero => simp [chooseN]
    | succ k => simp [chooseN, Nat.choose_succ_succ, ih]

theorem powN_eq {R : Type} [Monoid R] (x : R) (k : ℕ) : powN x k = x ^ k := by
  induction k with
  | zero => simp [powN]
  | succ k ih => simp [powN, pow_succ, ih]

variable {K : Type} [Field K] [CharZero K]

/-- the de-preconditioned transition matrix `Φ(h)`, by its formula -/
def Phi (q : ℕ) (h : K) : Matrix (Fin (q+1)) (Fin (q+1)) K :=
  Matrix.of fun i j => if i.val ≤ j.val then h ^ (j.val - i.val) / ((j.val - i.val).factorial : K) else 0

/-- the de-preconditioned process-noise covariance `Q(h)` for squared scale `s2`, by its formula -/
def Qmat (q : ℕ) (h s2 : K) : Matrix (Fin (q+1)) (Fin (q+1)) K :=
  Matrix.of fun i j => s2 * h ^ (2 * q + 1 - i.val - j.val)
    / (((2 * q + 1 - i.val - j.val : ℕ) : K) * ((q - i.val).factorial : K) * ((q - j.val).factorial : K))

theorem fact_ne (n : ℕ) : ((n.factorial : ℕ) : K) ≠ 0 := Nat.cast_ne_zero.mpr (Nat.factorial_ne_zero n)

theorem den_A_get (q : ℕ) (h s2 : K) (hh : h ≠ 0) (i j : Fin (q+1)) :
    (Iwp.transition1 q h s2).den.A.get i j = Phi q h i j := by
  simp only [PCond.den, Iwp.transition1, Iwp.precon, Mat.rowScale, Mat.colScale, Iwp.A1, get_ofFn, vget_ofFn,
    Phi, Matrix.of_apply, factN_eq, chooseN_eq, powN_eq]
  by_cases hij : i.val ≤ j.val
  · simp only [hij, if_true]
    have hi : i.val ≤ q := Nat.lt_succ_iff.mp i.isLt
    have hj : j.val ≤ q := Nat.lt_succ_iff.mp j.isLt
    obtain ⟨b, hb⟩ : ∃ b, q - j.val = b := ⟨_, rfl⟩
    obtain ⟨c, hc⟩ : ∃ c, j.val - i.val = c := ⟨_, rfl⟩
    have ha : q - i.val = c + b := by omega
    rw [hb, hc, ha]
    have hch : ((c + b).choose c : K) * (c.factorial : K) * (b.factorial : K) = ((c + b).factorial : K) := by
      have := Nat.choose_mul_factorial_mul_factorial (Nat.le_add_right c b)
      rw [Nat.add_sub_cancel_left] at this
      exact_mod_cast this
    have h1 := fact_ne (K := K) (c + b)
    have h2 := fact_ne (K := K) c
    have h3 := fact_ne (K := K) b
    have hp : h ^ b ≠ 0 := pow_ne_zero _ hh
    rw [pow_add]
    field_simp
    rw [← hch]; ring
  · simp [hij]

theorem den_A (q : ℕ) (h s2 : K) (hh : h ≠ 0) : (Iwp.transition1 q h s2).den.A.toM = Phi q h := by
  funext i j; exact den_A_get q h s2 hh i j

theorem den_b (q : ℕ) (h s2 : K) : (Iwp.transition1 q h s2).den.b.toV = 0 := by
  funext i
  simp [PCond.den, Iwp.transition1, Vec.toV, Vec.zero, Vec.hmul]

theorem den_Q_get (q : ℕ) (h s2 : K) (i j : Fin (q+1)) :
    (Iwp.transition1 q h s2).den.Q.get i j = Qmat q h s2 i j := by
  simp only [PCond.den, Iwp.transition1, Iwp.precon, Mat.congrScale, Mat.smul, Iwp.H1, get_ofFn, vget_ofFn,
    Qmat, Matrix.of_apply, factN_eq, powN_eq]
  have hi : i.val ≤ q := Nat.lt_succ_iff.mp i.isLt
  have hj : j.val ≤ q := Nat.lt_succ_iff.mp j.isLt
  obtain ⟨a, ha⟩ : ∃ a, q - i.val = a := ⟨_, rfl⟩
  obtain ⟨b, hb⟩ : ∃ b, q - j.val = b := ⟨_, rfl⟩
  have hab : 2 * q + 1 - i.val - j.val = a + b + 1 := by omega
  rw [ha, hb, hab]
  have h1 := fact_ne (K := K) a
  have h2 := fact_ne (K := K) b
  have h3 : (((a + b + 1 : ℕ)) : K) ≠ 0 := Nat.cast_ne_zero.mpr (Nat.succ_ne_zero _)
  field_simp
  ring

theorem den_Q (q : ℕ) (h s2 : K) : (Iwp.transition1 q h s2).den.Q.toM = Qmat q h s2 := by
  funext i j; exact den_Q_get q h s2 i j

/-- the scalings of the shipped transition are units for `h ≠ 0` -/
theorem tl_ne (q : ℕ) (h s2 : K) (hh : h ≠ 0) (i : Fin (q+1)) : (Iwp.transition1 q h s2).tl.toV i ≠ 0 := by
  simp only [Iwp.transition1, Iwp.precon, Vec.toV, vget_ofFn, factN_eq, powN_eq]
  exact div_ne_zero (fact_ne _) (pow_ne_zero _ hh)
theorem tob_ne (q : ℕ) (h s2 : K) (hh : h ≠ 0) (i : Fin (q+1)) : (Iwp.transition1 q h s2).tob.toV i ≠ 0 := by
  simp only [Iwp.transition1, Iwp.precon, Vec.toV, vget_ofFn, factN_eq, powN_eq]
  exact div_ne_zero (pow_ne_zero _ hh) (fact_ne _)

/-! ### Taylor's formula -/

/-- Taylor's formula with iterated derivatives: for `deg f ≤ n`,
`f(t + h) = Σ_{k ≤ n} h^k/k! · f^(k)(t)`. -/
theorem taylor_sum (f : K[X]) (n : ℕ) (hn : f.natDegree ≤ n) (t h : K) :
    f.eval (t + h) = ∑ k ∈ range (n + 1), h ^ k / (k.factorial : K) * (derivative^[k] f).eval t := by
  have h1 : f.eval (t + h) = (taylor t f).eval h := by rw [taylor_eval, add_comm]
  rw [h1, eval_eq_sum_range' (n := n + 1) (by rw [natDegree_taylor]; omega)]
  apply Finset.sum_congr rfl
  intro k _
  rw [taylor_coeff]
  have hk : (derivative^[k] f) = k.factorial • hasseDeriv k f := by
    have := congrFun (factorial_smul_hasseDeriv (R := K) k) f
    simpa using this.symm
  rw [hk, nsmul_eq_mul, eval_mul, eval_natCast]
  have := fact_ne (K := K) k
  field_simp

/-- the jet `(p(t), p'(t), …, p^(q)(t))` of a polynomial -/
noncomputable def jet (q : ℕ) (p : K[X]) (t : K) : Fin (q+1) → K := fun i => (derivative^[i.val] p).eval t

theorem sum_shift (i m : ℕ) (g : ℕ → K) (f : ℕ → K) :
    (∑ j ∈ range (i + m), (if i ≤ j then g (j - i) else 0) * f j) = ∑ k ∈ range m, g k * f (i + k) := by
  rw [Finset.sum_range_add]
  have h0 : (∑ j ∈ range i, (if i ≤ j then g (j - i) else 0) * f j) = 0 := by
    apply Finset.sum_eq_zero
    intro j hj
    have : ¬ i ≤ j := by have := mem_range.mp hj; omega
    simp [this]
  rw [h0, zero_add]
  apply Finset.sum_congr rfl
  intro k _
  simp

/-- **Taylor shift of jets.** `Φ(h) · jet_q(p,t) = jet_q(p,t+h)` for every polynomial of degree `≤ q`. -/
theorem phi_mulVec_jet (q : ℕ) (p : K[X]) (hp : p.natDegree ≤ q) (t h : K) :
    Matrix.mulVec (Phi q h) (jet q p t) = jet q p (t + h) := by
  funext i
  have hi : i.val ≤ q := Nat.lt_succ_iff.mp i.isLt
  simp only [Matrix.mulVec, dotProduct, Phi, Matrix.of_apply, jet]
  rw [Fin.sum_univ_eq_sum_range
    (fun j => (if i.val ≤ j then h ^ (j - i.val) / ((j - i.val).factorial : K) else 0) * (derivative^[j] p).eval t) (q + 1)]
  have hq : i.val + (q - i.val + 1) = q + 1 := by omega
  have hs := sum_shift i.val (q - i.val + 1) (fun k => h ^ k / (k.factorial : K)) (fun j => (derivative^[j] p).eval t)
  rw [hq] at hs
  rw [hs]
  have hdeg : (derivative^[i.val] p).natDegree ≤ q - i.val := by
    have := natDegree_iterate_derivative p i.val
    omega
  rw [taylor_sum (derivative^[i.val] p) (q - i.val) hdeg t h]
  apply Finset.sum_congr rfl
  intro k _
  rw [← Function.iterate_add_apply, add_comm k i.val]

/-! ### the dense `d`-dimensional transition (coefficient-major index `i*d + a`) -/

theorem co_lt (q d : ℕ) (x : Fin ((q+1)*d)) : x.val / d < q + 1 := by
  apply Nat.div_lt_of_lt_mul
  exact lt_of_lt_of_eq x.isLt (Nat.mul_comm _ _)

theorem dense_den_A_get (q d : ℕ) (h s2 : K) (lam2 : Vec d K) (hh : h ≠ 0) (x y : Fin ((q+1)*d)) :
    (Iwp.transitionDense q d h s2 lam2).den.A.get x y
      = if x.val % d = y.val % d then Phi q h ⟨x.val / d, co_lt q d x⟩ ⟨y.val / d, co_lt q d y⟩ else 0 := by
  have hx := co_lt q d x
  have hy := co_lt q d y
  have key := den_A_get q h s2 hh ⟨x.val / d, hx⟩ ⟨y.val / d, hy⟩
  simp only [PCond.den, Iwp.transition1, Iwp.precon, Mat.rowScale, Mat.colScale, get_ofFn, vget_ofFn] at key
  simp only [PCond.den, Iwp.transitionDense, Iwp.precon, Mat.rowScale, Mat.colScale, get_ofFn, vget_ofFn, dif_pos hx, dif_pos hy]
  by_cases hm : x.val % d = y.val % d
  · simp only [hm, if_true]
    exact key
  · simp [hm]

theorem di_lt (q d : ℕ) (x : Fin ((q+1)*d)) : x.val % d < d := by
  apply Nat.mod_lt
  rcases Nat.eq_zero_or_pos d with hd | hd
  · have h1 : x.val < (q+1) * d := x.isLt
    have h2 : (q+1) * d = 0 := by simp [hd]
    omega
  · exact hd

/-- the dense jet, coefficient-major: entry `i*d + a` is `p_a^(i)(t)` -/
noncomputable def jetD (q d : ℕ) (p : Fin d → K[X]) (t : K) : Fin ((q+1)*d) → K :=
  fun x => (derivative^[x.val / d] (p ⟨x.val % d, di_lt q d x⟩)).eval t

theorem dense_den_b (q d : ℕ) (h s2 : K) (lam2 : Vec d K) : (Iwp.transitionDense q d h s2 lam2).den.b.toV = 0 := by
  funext i
  simp [PCond.den, Iwp.transitionDense, Vec.toV, Vec.zero, Vec.hmul]

theorem dense_mulVec_jet (q d : ℕ) (h s2 : K) (lam2 : Vec d K) (hh : h ≠ 0) (p : Fin d → K[X])
    (hp : ∀ a, (p a).natDegree ≤ q) (t : K) :
    Matrix.mulVec (Iwp.transitionDense q d h s2 lam2).den.A.toM (jetD q d p t) = jetD q d p (t + h) := by
  funext x
  have hx := co_lt q d x
  have hdx := di_lt q d x
  simp only [Matrix.mulVec, dotProduct, toM_apply, dense_den_A_get q d h s2 lam2 hh]
  rw [← Equiv.sum_comp finProdFinEquiv, Fintype.sum_prod_type]
  have hval : ∀ (j : Fin (q+1)) (b : Fin d), ((finProdFinEquiv (j, b) : Fin ((q+1)*d)).val % d = b.val) ∧
      ((finProdFinEquiv (j, b) : Fin ((q+1)*d)).val / d = j.val) := by
    intro j b
    have hd : 0 < d := by have := b.isLt; omega
    simp only [finProdFinEquiv, Equiv.coe_fn_mk]
    constructor
    · rw [Nat.add_mul_mod_self_left, Nat.mod_eq_of_lt b.isLt]
    · rw [Nat.add_mul_div_left _ _ hd, Nat.div_eq_of_lt b.isLt, Nat.zero_add]
  have h1 := congrFun (phi_mulVec_jet q (p ⟨x.val % d, hdx⟩) (hp _) t h) ⟨x.val / d, hx⟩
  simp only [Matrix.mulVec, dotProduct, jet] at h1
  simp only [jetD]
  rw [← h1]
  apply Finset.sum_congr rfl
  intro j _
  rw [Finset.sum_eq_single (⟨x.val % d, hdx⟩ : Fin d)]
  · have := hval j ⟨x.val % d, hdx⟩
    simp only [this.1, this.2, if_true]
  · intro b _ hb
    have hne : ¬ x.val % d = (finProdFinEquiv (j, b) : Fin ((q+1)*d)).val % d := by
      rw [(hval j b).1]; intro he; exact hb (Fin.ext he.symm)
    rw [if_neg hne, zero_mul]
  · intro hn; exact (hn (Finset.mem_univ _)).elim

end Pdq.IwpDen
