import Pdq.Model.Iwp
import Pdq.Bridge
import Mathlib.Algebra.Polynomial.Derivative
import Mathlib.Algebra.Polynomial.Eval.Defs
import Mathlib.Algebra.BigOperators.Ring.Finset
import Mathlib.Algebra.BigOperators.Field
import Mathlib.Data.Nat.Choose.Sum
import Mathlib.Tactic.FieldSimp
import Mathlib.Tactic.Ring
import Mathlib.Tactic.Positivity
import Mathlib.Algebra.CharZero.Defs
import Mathlib.Algebra.CharZero.Infinite
import Mathlib.Algebra.Polynomial.Roots
import Mathlib.Algebra.Order.Field.Basic

/-!
# Pdq.Lemmas.Iwp — helper lemmas for C09 (integrated Wiener process)

* the model's `factN`, `chooseN`, `powN` are Mathlib's `Nat.factorial`, `Nat.choose`, `^`;
* the entry functions `phi a h = h^a/a!`, `Qe a b h = h^(a+b+1)/((a+b+1) a! b!)`;
* the Taylor-shift lemma `phi_shift` and the entrywise composition rule `Q_semigroup`
  (proved in the design round; all orders, any field of characteristic 0);
* index bookkeeping `a = q - i` between `Fin (q+1)` sums and `Finset.range` sums.
-/
set_option linter.unusedSectionVars false
open Finset Polynomial

namespace Pdq.Iwp

theorem factN_eq (n : ℕ) : factN n = n.factorial := by
  induction n with
  | zero => rfl
  | succ n ih => simp [factN, Nat.factorial_succ, ih]

theorem chooseN_eq (n k : ℕ) : chooseN n k = n.choose k := by
  induction n generalizing k with
  | zero => cases k <;> simp [chooseN]
  | succ n ih => cases k with
    | zero => simp [chooseN]
    | succ k => simp [chooseN, Nat.choose_succ_succ, ih]

theorem powN_eq {R : Type} [Monoid R] (x : R) (k : ℕ) : powN x k = x ^ k := by
  induction k with
  | zero => simp [powN]
  | succ k ih => simp [powN, pow_succ, ih]

variable {K : Type} [Field K] [CharZero K]

/-- `φ_a(h) = h^a / a!` -/
def phi (a : ℕ) (h : K) : K := h ^ a / (a.factorial : K)

/-- Taylor shift of `φ`: `Σ_{c ≤ a} h₂^(a-c)/(a-c)! · φ_c(x) = φ_a(x + h₂)`. -/
theorem phi_shift (a : ℕ) (x h : K) :
    ∑ c ∈ range (a + 1), phi (a - c) h * phi c x = phi a (x + h) := by
  unfold phi
  rw [add_pow, Finset.sum_div]
  apply Finset.sum_congr rfl
  intro c hc
  have hca : c ≤ a := Nat.lt_succ_iff.mp (mem_range.mp hc)
  have hf : (a.factorial : K) ≠ 0 := Nat.cast_ne_zero.mpr (Nat.factorial_ne_zero a)
  have hf1 : (c.factorial : K) ≠ 0 := Nat.cast_ne_zero.mpr (Nat.factorial_ne_zero c)
  have hf2 : ((a - c).factorial : K) ≠ 0 := Nat.cast_ne_zero.mpr (Nat.factorial_ne_zero _)
  have hch : (a.choose c : K) * (c.factorial : K) * ((a - c).factorial : K) = (a.factorial : K) := by
    exact_mod_cast Nat.choose_mul_factorial_mul_factorial hca
  field_simp
  rw [← hch]; ring

/-- entry of the integrated-Wiener process noise: `h^(a+b+1) / ((a+b+1) a! b!)` -/
def Qe (a b : ℕ) (h : K) : K := h ^ (a + b + 1) / (((a + b + 1 : ℕ) : K) * a.factorial * b.factorial)

/-- polynomial (in `X = h₁`) whose value is LHS − RHS of the composition rule -/
noncomputable def semiPoly (a b : ℕ) (h₂ : K) : K[X] :=
  (∑ c ∈ range (a + 1), ∑ e ∈ range (b + 1),
      C (phi (a - c) h₂ * phi (b - e) h₂ / (((c + e + 1 : ℕ) : K) * c.factorial * e.factorial)) * X ^ (c + e + 1))
    + C (Qe a b h₂)
    - C (1 / (((a + b + 1 : ℕ) : K) * a.factorial * b.factorial)) * (X + C h₂) ^ (a + b + 1)

theorem semiPoly_deriv (a b : ℕ) (h₂ : K) : derivative (semiPoly a b h₂) = 0 := by
  apply Polynomial.funext
  intro x
  have hsum : ∀ c e : ℕ, (((c + e + 1 : ℕ) : K)) ≠ 0 := fun c e => Nat.cast_ne_zero.mpr (Nat.succ_ne_zero _)
  have hab : (((a + b + 1 : ℕ) : K)) ≠ 0 := hsum a b
  have hfa : (a.factorial : K) ≠ 0 := Nat.cast_ne_zero.mpr (Nat.factorial_ne_zero a)
  have hfb : (b.factorial : K) ≠ 0 := Nat.cast_ne_zero.mpr (Nat.factorial_ne_zero b)
  simp only [semiPoly, derivative_sub, derivative_add, derivative_sum, derivative_mul, derivative_C,
    derivative_pow, derivative_X, zero_mul, zero_add, add_zero, eval_sub, eval_add,
    eval_finsetSum, eval_mul, eval_C, eval_pow, eval_X, eval_zero, Nat.add_sub_cancel, mul_one,
    Nat.cast_add, Nat.cast_succ]
  have h1 := phi_shift a x h₂
  have h2 := phi_shift b x h₂
  have hprod : (∑ c ∈ range (a + 1), phi (a - c) h₂ * phi c x) * (∑ e ∈ range (b + 1), phi (b - e) h₂ * phi e x)
      = phi a (x + h₂) * phi b (x + h₂) := by rw [h1, h2]
  rw [Finset.sum_mul_sum] at hprod
  rw [sub_eq_zero]
  have hR : (1 / (((a : K) + b + 1) * a.factorial * b.factorial)) * (((a : K) + b + 1) * (x + h₂) ^ (a + b))
      = phi a (x + h₂) * phi b (x + h₂) := by
    unfold phi
    have hab' : ((a : K) + b + 1) ≠ 0 := by exact_mod_cast hab
    field_simp
    ring
  rw [hR, ← hprod]
  apply Finset.sum_congr rfl; intro c _
  apply Finset.sum_congr rfl; intro e _
  have hce : ((c : K) + e + 1) ≠ 0 := by exact_mod_cast hsum c e
  have hfc : (c.factorial : K) ≠ 0 := Nat.cast_ne_zero.mpr (Nat.factorial_ne_zero c)
  have hfe : (e.factorial : K) ≠ 0 := Nat.cast_ne_zero.mpr (Nat.factorial_ne_zero e)
  unfold phi
  field_simp
  ring

/-- the entrywise composition rule of the process noise, all orders -/
theorem Q_semigroup (a b : ℕ) (h₁ h₂ : K) :
    (∑ c ∈ range (a + 1), ∑ e ∈ range (b + 1), phi (a - c) h₂ * Qe c e h₁ * phi (b - e) h₂) + Qe a b h₂
      = Qe a b (h₁ + h₂) := by
  have hC := eq_C_of_derivative_eq_zero (semiPoly_deriv a b h₂)
  have h0 : (semiPoly a b h₂).coeff 0 = 0 := by
    rw [coeff_zero_eq_eval_zero]
    simp [semiPoly, Qe, eval_finsetSum]
    field_simp
    simp
  have hev : (semiPoly a b h₂).eval h₁ = 0 := by rw [hC, h0]; simp
  have hexp : (semiPoly a b h₂).eval h₁ =
      (∑ c ∈ range (a + 1), ∑ e ∈ range (b + 1), phi (a - c) h₂ * Qe c e h₁ * phi (b - e) h₂) + Qe a b h₂
        - Qe a b (h₁ + h₂) := by
    simp only [semiPoly, eval_sub, eval_add, eval_finsetSum, eval_mul, eval_C, eval_pow, eval_X]
    congr 1
    · congr 1
      apply Finset.sum_congr rfl; intro c _
      apply Finset.sum_congr rfl; intro e _
      unfold Qe; field_simp
    · unfold Qe; field_simp
  rw [hexp] at hev
  exact sub_eq_zero.mp hev

/-! ### index bookkeeping -/

/-- `Σ_{l : Fin (q+1)} [i ≤ l] f (q - l) = Σ_{c ≤ q - i} f c` -/
theorem sum_fin_rev_ge {M : Type} [AddCommMonoid M] (q i : ℕ) (hi : i ≤ q) (f : ℕ → M) :
    (∑ l : Fin (q + 1), if i ≤ l.val then f (q - l.val) else 0) = ∑ c ∈ range (q - i + 1), f c := by
  rw [Fin.sum_univ_eq_sum_range (fun l => if i ≤ l then f (q - l) else 0) (q + 1)]
  rw [← Finset.sum_flip]
  have : ∀ r ∈ range (q + 1), (if i ≤ q - r then f (q - (q - r)) else 0) = if r < q - i + 1 then f r else 0 := by
    intro r hr
    have hr' : r ≤ q := Nat.lt_succ_iff.mp (mem_range.mp hr)
    have h1 : q - (q - r) = r := Nat.sub_sub_self hr'
    rw [h1]
    by_cases h : i ≤ q - r
    · have : r < q - i + 1 := by omega
      simp [h, this]
    · have : ¬ r < q - i + 1 := by omega
      simp [h, this]
  rw [Finset.sum_congr rfl this, ← Finset.sum_filter]
  congr 1
  ext r
  simp only [mem_filter, mem_range]
  omega

end Pdq.Iwp
