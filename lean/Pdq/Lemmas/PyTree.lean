import Pdq.Model.Ravel
import Pdq.Lemmas.Ravel
import Mathlib.Data.List.Basic
import Mathlib.Data.List.GetD

/-! helper lemmas for C15 about `PyTree` (mutual structural inductions) -/
set_option linter.unusedSectionVars false
set_option linter.unusedSimpArgs false
namespace Pdq.C15
open Pdq.Ravel
variable {α β : Type}

mutual
theorem PyTree.length_leaves (t : PyTree α) : t.leaves.length = t.size := by
  cases t with
  | leaf s d => simp [PyTree.leaves, PyTree.size]
  | node k f => simp [PyTree.leaves, PyTree.size, PyForest.length_leaves f]
theorem PyForest.length_leaves (f : PyForest α) : f.leaves.length = f.size := by
  cases f with
  | nil => simp [PyForest.leaves, PyForest.size]
  | cons k t rest => simp [PyForest.leaves, PyForest.size, PyTree.length_leaves t, PyForest.length_leaves rest]
end

mutual
theorem PyTree.fill_spec (t : PyTree β) (xs : List α) :
    (t.fill xs).1.leaves = xs.take t.size ∧ (t.fill xs).2 = xs.drop t.size := by
  cases t with
  | leaf s d => simp [PyTree.fill, PyTree.leaves, PyTree.size]
  | node k f =>
    obtain ⟨h1, h2⟩ := PyForest.fill_spec f xs
    simp [PyTree.fill, PyTree.leaves, PyTree.size, h1, h2]
theorem PyForest.fill_spec (f : PyForest β) (xs : List α) :
    (f.fill xs).1.leaves = xs.take f.size ∧ (f.fill xs).2 = xs.drop f.size := by
  cases f with
  | nil => simp [PyForest.fill, PyForest.leaves, PyForest.size]
  | cons k t rest =>
    obtain ⟨h1, h2⟩ := PyTree.fill_spec t xs
    obtain ⟨h3, h4⟩ := PyForest.fill_spec rest (xs.drop t.size)
    simp only [PyForest.fill, PyForest.leaves, PyForest.size, h1, h2, h3, h4]
    constructor
    · rw [List.take_add]
    · rw [List.drop_drop]
end

mutual
theorem PyTree.fill_self (t : PyTree α) (ys : List α) : t.fill (t.leaves ++ ys) = (t, ys) := by
  cases t with
  | leaf s d => simp [PyTree.fill, PyTree.leaves]
  | node k f => simp [PyTree.fill, PyTree.leaves, PyForest.fill_self f ys]
theorem PyForest.fill_self (f : PyForest α) (ys : List α) : f.fill (f.leaves ++ ys) = (f, ys) := by
  cases f with
  | nil => simp [PyForest.fill, PyForest.leaves]
  | cons k t rest =>
    simp [PyForest.fill, PyForest.leaves, List.append_assoc, PyTree.fill_self t, PyForest.fill_self rest]
end


theorem PyForest.sort_of_sorted : (f : PyForest α) → f.sortedB = true → f.sort = f
  | .nil, _ => rfl
  | .cons k t .nil, _ => by simp [PyForest.sort, PyForest.insert]
  | .cons k t (.cons k' t' rest'), h => by
    simp only [PyForest.sortedB, Bool.and_eq_true, decide_eq_true_eq] at h
    rw [PyForest.sort, PyForest.sort_of_sorted (.cons k' t' rest') h.2, PyForest.insert, if_pos h.1]

mutual
theorem PyTree.canon_of_canonical (t : PyTree α) (h : t.isCanonical = true) : t.canon = t := by
  cases t with
  | leaf s d => rfl
  | node k f =>
    cases k with
    | dict =>
      simp only [PyTree.isCanonical, Bool.and_eq_true] at h
      rw [PyTree.canon, PyForest.canon_of_canonical f h.2, PyForest.sort_of_sorted f h.1]
    | tuple =>
      simp only [PyTree.isCanonical] at h
      rw [PyTree.canon, PyForest.canon_of_canonical f h]
      simp
    | named =>
      simp only [PyTree.isCanonical] at h
      rw [PyTree.canon, PyForest.canon_of_canonical f h]
      simp
theorem PyForest.canon_of_canonical (f : PyForest α) (h : f.isCanonical = true) : f.canon = f := by
  cases f with
  | nil => rfl
  | cons k t rest =>
    simp only [PyForest.isCanonical, Bool.and_eq_true] at h
    rw [PyForest.canon, PyTree.canon_of_canonical t h.1, PyForest.canon_of_canonical rest h.2]
end

theorem PyForest.fill_sortedB : (f : PyForest β) → (xs : List α) → (f.fill xs).1.sortedB = f.sortedB
  | .nil, _ => rfl
  | .cons k t .nil, xs => by simp [PyForest.fill, PyForest.sortedB]
  | .cons k t (.cons k' t' rest'), xs => by
    have := PyForest.fill_sortedB (.cons k' t' rest') (t.fill xs).2
    simp only [PyForest.fill, PyForest.sortedB] at this ⊢
    rw [this]

mutual
theorem PyTree.fill_isCanonical (t : PyTree β) (xs : List α) : (t.fill xs).1.isCanonical = t.isCanonical := by
  cases t with
  | leaf s d => rfl
  | node k f =>
    cases k <;>
    simp [PyTree.fill, PyTree.isCanonical, PyForest.fill_isCanonical f xs, PyForest.fill_sortedB f xs]
theorem PyForest.fill_isCanonical (f : PyForest β) (xs : List α) : (f.fill xs).1.isCanonical = f.isCanonical := by
  cases f with
  | nil => rfl
  | cons k t rest =>
    simp [PyForest.fill, PyForest.isCanonical, PyTree.fill_isCanonical t xs, PyForest.fill_isCanonical rest (t.fill xs).2]
end

theorem PyForest.leaves_canon : (f : PyForest α) → f.canon.leaves = (f.toList.map PyTree.ravel).flatten
  | .nil => rfl
  | .cons k t rest => by
    simp [PyForest.canon, PyForest.leaves, PyForest.toList, PyForest.leaves_canon rest, PyTree.ravel]

section
variable [Inhabited α]
theorem flatten_getD (rows : List (List α)) (d : Nat) (hd : ∀ r ∈ rows, r.length = d) {i a : Nat}
    (hi : i < rows.length) (ha : a < d) :
    rows.flatten.getD (i * d + a) default = rowsGet rows i a := by
  induction rows generalizing i with
  | nil => simp at hi
  | cons r rest ih =>
    have hr : r.length = d := hd r (by simp)
    cases i with
    | zero =>
      simp only [List.flatten_cons, Nat.zero_mul, Nat.zero_add, rowsGet, List.getD_cons_zero]
      rw [List.getD_append _ _ _ _ (by omega)]
    | succ i =>
      have hi' : i < rest.length := by simpa using hi
      have := ih (fun r hr => hd r (by simp [hr])) hi'
      simp only [List.flatten_cons, rowsGet, List.getD_cons_succ] at this ⊢
      rw [show (i + 1) * d + a = r.length + (i * d + a) by rw [hr]; ring]
      rw [List.getD_append_right _ _ _ _ (by omega)]
      simpa using this

end

end Pdq.C15
