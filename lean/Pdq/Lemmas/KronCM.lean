import Pdq.Model.Solver
import Pdq.Model.Iwp
import Pdq.Bridge
import Mathlib.LinearAlgebra.Matrix.Permutation
import Mathlib.Logic.Equiv.Fin.Basic
import Mathlib.Algebra.BigOperators.Ring.Finset

/-! helper lemmas for C15: coefficient-major Kronecker products, cancellation of inverse pairs, permutation matrices -/
set_option linter.unusedSectionVars false
set_option linter.unusedSimpArgs false
open Matrix
namespace Pdq.C15
variable {K : Type} [Field K] {k n : Nat}

theorem cancelL {p q : Nat} {T Ti : Matrix (Fin p) (Fin p) K} (h : Ti * T = 1) (X : Matrix (Fin p) (Fin q) K) :
    Ti * (T * X) = X := by rw [← Matrix.mul_assoc, h, Matrix.one_mul]
theorem cancelLT {p q : Nat} {T Ti : Matrix (Fin p) (Fin p) K} (h : Ti * T = 1) (X : Matrix (Fin p) (Fin q) K) :
    Tᵀ * (Tiᵀ * X) = X := by
  rw [← Matrix.mul_assoc, ← Matrix.transpose_mul, h, Matrix.transpose_one, Matrix.one_mul]
theorem cancelV {p : Nat} {T Ti : Matrix (Fin p) (Fin p) K} (h : Ti * T = 1) (x : Fin p → K) :
    Ti *ᵥ (T *ᵥ x) = x := by rw [Matrix.mulVec_mulVec, h, Matrix.one_mulVec]

/-! ### the shipped prior: coefficient-major Kronecker structure -/

/-- `M ⊗ T` in coefficient-major coordinates (`index = i·d + a`) -/
def kronCM {m d : Nat} (M : Matrix (Fin m) (Fin m) K) (T : Matrix (Fin d) (Fin d) K) :
    Matrix (Fin (m * d)) (Fin (m * d)) K :=
  fun x y => M x.divNat y.divNat * T x.modNat y.modNat

theorem kronCM_mul {m d : Nat} (M M' : Matrix (Fin m) (Fin m) K) (T T' : Matrix (Fin d) (Fin d) K) :
    kronCM M T * kronCM M' T' = kronCM (M * M') (T * T') := by
  ext x y
  simp only [Matrix.mul_apply, kronCM]
  rw [← Equiv.sum_comp finProdFinEquiv, Fintype.sum_prod_type]
  have hdiv : ∀ p : Fin m × Fin d, (finProdFinEquiv p).divNat = p.1 :=
    fun p => congrArg Prod.fst (finProdFinEquiv.symm_apply_apply p)
  have hmod : ∀ p : Fin m × Fin d, (finProdFinEquiv p).modNat = p.2 :=
    fun p => congrArg Prod.snd (finProdFinEquiv.symm_apply_apply p)
  simp only [hdiv, hmod]
  rw [Finset.sum_mul_sum]
  apply Finset.sum_congr rfl; intro i _
  apply Finset.sum_congr rfl; intro a _
  ring

theorem kronCM_transpose {m d : Nat} (M : Matrix (Fin m) (Fin m) K) (T : Matrix (Fin d) (Fin d) K) :
    (kronCM M T)ᵀ = kronCM Mᵀ Tᵀ := by
  ext x y; rfl

theorem kronCM_one {m d : Nat} : kronCM (1 : Matrix (Fin m) (Fin m) K) (1 : Matrix (Fin d) (Fin d) K) = 1 := by
  ext x y
  simp only [kronCM, Matrix.one_apply]
  by_cases h : x = y
  · subst h; simp
  · have : ¬ (x.divNat = y.divNat ∧ x.modNat = y.modNat) := by
      intro ⟨h1, h2⟩
      apply h
      have : finProdFinEquiv.symm x = finProdFinEquiv.symm y := Prod.ext h1 h2
      exact finProdFinEquiv.symm.injective this
    rw [if_neg h]
    by_cases h1 : x.divNat = y.divNat
    · have h2 : ¬ x.modNat = y.modNat := fun h2 => this ⟨h1, h2⟩
      simp [h1, h2]
    · simp [h1]

theorem kronCM_zero_left {m d : Nat} (T : Matrix (Fin d) (Fin d) K) :
    kronCM (0 : Matrix (Fin m) (Fin m) K) T = 0 := by
  ext x y; simp [kronCM]

/-- `I ⊗ T`: a transformation of the `d` state components, applied to every Taylor coefficient -/
def liftCM (m : Nat) {d : Nat} (T : Matrix (Fin d) (Fin d) K) : Matrix (Fin (m * d)) (Fin (m * d)) K :=
  kronCM (1 : Matrix (Fin m) (Fin m) K) T

theorem liftCM_inv (m : Nat) {d : Nat} (T Ti : Matrix (Fin d) (Fin d) K) (h : Ti * T = 1) :
    liftCM m Ti * liftCM m T = 1 := by
  rw [liftCM, liftCM, kronCM_mul, h, Matrix.one_mul, kronCM_one]

/-- the 1-d building blocks of the de-preconditioned dense transition -/
def denA1 (q : Nat) (h : K) : Matrix (Fin (q+1)) (Fin (q+1)) K :=
  fun i j => (Iwp.precon q h).1.get i * (Iwp.A1 q : Mat (q+1) (q+1) K).get i j * (Iwp.precon q h).2.get j
def denQ1 (q : Nat) (h s2 : K) : Matrix (Fin (q+1)) (Fin (q+1)) K :=
  fun i j => (Iwp.precon q h).1.get i * (h * s2 * (Iwp.H1 q : Mat (q+1) (q+1) K).get i j) * (Iwp.precon q h).1.get j

theorem den_entry {m n' : Nat} (c : PCond m n' K) (x : Fin m) (y : Fin n') :
    c.den.A.get x y = c.tob.get x * c.A.get x y * c.tl.get y := by
  simp [PCond.den, Mat.rowScale, Mat.colScale]
theorem denQ_entry {m n' : Nat} (c : PCond m n' K) (x y : Fin m) :
    c.den.Q.get x y = c.tob.get x * c.Q.get x y * c.tob.get y := by
  simp [PCond.den, Mat.congrScale]

theorem divNat_lt {m d : Nat} (x : Fin (m * d)) : x.val / d < m := x.divNat.isLt
theorem modNat_lt {m d : Nat} (x : Fin (m * d)) : x.val % d < d := x.modNat.isLt

/-- permutation matrices: `(P_σ v)_a = v_{σ a}` -/
theorem perm_diag (d : Nat) (σ : Equiv.Perm (Fin d)) (lam : Fin d → K) :
    σ.permMatrix K * Matrix.diagonal lam * (σ.permMatrix K)ᵀ = Matrix.diagonal (lam ∘ σ) := by
  ext a b
  rw [Matrix.transpose_permMatrix, Equiv.Perm.permMatrix, Equiv.Perm.permMatrix, PEquiv.toMatrix_toPEquiv_mul,
    PEquiv.mul_toMatrix_toPEquiv]
  simp only [Matrix.submatrix_apply, id, Matrix.diagonal_apply, Function.comp]
  have : (σ⁻¹ : Equiv.Perm (Fin d)).symm b = σ b := rfl
  rw [this]
  by_cases hab : a = b
  · subst hab; simp
  · have : σ a ≠ σ b := fun h => hab (σ.injective h)
    simp [hab, this]

theorem perm_inv (d : Nat) (σ : Equiv.Perm (Fin d)) :
    σ.permMatrix K * (σ⁻¹).permMatrix K = 1 := by
  rw [← Matrix.permMatrix_mul, inv_mul_cancel, Matrix.permMatrix_one]


end Pdq.C15
