import Pdq.Model.LinAlg
import Mathlib.Data.Matrix.Mul
import Mathlib.Data.Matrix.Diagonal
import Mathlib.Algebra.BigOperators.Fin
import Mathlib.Tactic.Ring

/-!
# Pdq.Bridge — abstraction maps from the executable model to Mathlib matrices

`Mat.toM`, `Vec.toV` and the homomorphism `simp` lemmas.  Theorems about the model are stated
through these maps; the model itself never imports Mathlib.
-/
set_option linter.unusedSectionVars false
open Matrix

namespace Pdq
variable {K : Type}

def Mat.toM {m n : Nat} {α} (A : Mat m n α) : Matrix (Fin m) (Fin n) α := Matrix.of A.get
def Vec.toV {n : Nat} {α} (v : Vec n α) : Fin n → α := v.get

theorem Mat.ext' {m n : Nat} {α} {A B : Mat m n α} (h : A.toM = B.toM) : A = B := by
  cases A; cases B; simp only [Mat.toM] at h; congr 1
theorem Vec.ext' {n : Nat} {α} {u v : Vec n α} (h : u.toV = v.toV) : u = v := by
  cases u; cases v; simp only [Vec.toV] at h; congr 1

theorem vsum_eq [AddCommMonoid K] {n : Nat} (f : Fin n → K) : vsum f = ∑ i, f i := by
  unfold vsum; rw [Fin.sum_univ_def]

@[simp] theorem toM_ofFn {m n : Nat} {α} (f : Fin m → Fin n → α) : (Mat.ofFn f).toM = Matrix.of f := by
  funext i j
  simp [Mat.ofFn, Mat.toM]
@[simp] theorem toV_ofFn {n : Nat} {α} (f : Fin n → α) : (Vec.ofFn f).toV = f := by
  funext i
  simp [Vec.ofFn, Vec.toV]
@[simp] theorem get_ofFn {m n : Nat} {α} (f : Fin m → Fin n → α) (i j) : (Mat.ofFn f).get i j = f i j := by
  have := congrFun (congrFun (toM_ofFn f) i) j
  simpa [Mat.toM] using this
@[simp] theorem vget_ofFn {n : Nat} {α} (f : Fin n → α) (i) : (Vec.ofFn f).get i = f i := by
  have := congrFun (toV_ofFn f) i
  simpa [Vec.toV] using this

theorem toM_apply {m n : Nat} {α} (A : Mat m n α) (i j) : A.toM i j = A.get i j := rfl
theorem toV_apply {n : Nat} {α} (v : Vec n α) (i) : v.toV i = v.get i := rfl

section ring
variable [CommRing K]

@[simp] theorem toM_mul {m n k : Nat} (A : Mat m n K) (B : Mat n k K) :
    (A.mul B).toM = A.toM * B.toM := by
  unfold Mat.mul; rw [toM_ofFn]
  funext i j
  simp [Mat.toM, vsum_eq, Matrix.mul_apply]
@[simp] theorem toM_tr {m n : Nat} (A : Mat m n K) : A.tr.toM = A.toMᵀ := by
  funext i j; rfl
@[simp] theorem toM_add {m n : Nat} (A B : Mat m n K) : (A.add B).toM = A.toM + B.toM := by
  unfold Mat.add; rw [toM_ofFn]; funext i j; rfl
@[simp] theorem toM_sub {m n : Nat} (A B : Mat m n K) : (A.sub B).toM = A.toM - B.toM := by
  unfold Mat.sub; rw [toM_ofFn]; funext i j; rfl
@[simp] theorem toM_neg {m n : Nat} (A : Mat m n K) : A.neg.toM = - A.toM := by
  unfold Mat.neg; rw [toM_ofFn]; funext i j; rfl
@[simp] theorem toM_smul {m n : Nat} (c : K) (A : Mat m n K) : (Mat.smul c A).toM = c • A.toM := by
  unfold Mat.smul; rw [toM_ofFn]; funext i j; rfl
@[simp] theorem toM_zero {m n : Nat} : (Mat.zero : Mat m n K).toM = 0 := by
  funext i j; rfl
@[simp] theorem toM_one {n : Nat} : (Mat.one : Mat n n K).toM = 1 := by
  funext i j; simp [Mat.toM, Mat.one, Matrix.one_apply]
@[simp] theorem toM_diag {n : Nat} (v : Vec n K) : (Mat.diag v).toM = Matrix.diagonal v.toV := by
  funext i j; simp [Mat.toM, Mat.diag, Matrix.diagonal_apply, Vec.toV]
@[simp] theorem toM_rowScale {m n : Nat} (r : Vec m K) (A : Mat m n K) :
    (Mat.rowScale r A).toM = Matrix.diagonal r.toV * A.toM := by
  unfold Mat.rowScale; rw [toM_ofFn]; funext i j
  simp [Mat.toM, Vec.toV, Matrix.diagonal_mul]
@[simp] theorem toM_colScale {m n : Nat} (A : Mat m n K) (c : Vec n K) :
    (Mat.colScale A c).toM = A.toM * Matrix.diagonal c.toV := by
  unfold Mat.colScale; rw [toM_ofFn]; funext i j
  simp [Mat.toM, Vec.toV, Matrix.mul_diagonal]
@[simp] theorem toM_congrScale {n : Nat} (r : Vec n K) (A : Mat n n K) :
    (Mat.congrScale r A).toM = Matrix.diagonal r.toV * A.toM * Matrix.diagonal r.toV := by
  unfold Mat.congrScale; rw [toM_ofFn]; funext i j
  simp [Mat.toM, Vec.toV, Matrix.mul_diagonal, Matrix.diagonal_mul]

@[simp] theorem toV_mulVec {m n : Nat} (A : Mat m n K) (v : Vec n K) :
    (A.mulVec v).toV = A.toM *ᵥ v.toV := by
  unfold Mat.mulVec; rw [toV_ofFn]; funext i
  simp [Vec.toV, Mat.toM, vsum_eq, Matrix.mulVec, dotProduct]
@[simp] theorem toV_add {n : Nat} (u v : Vec n K) : (u.add v).toV = u.toV + v.toV := by
  unfold Vec.add; rw [toV_ofFn]; funext i; rfl
@[simp] theorem toV_sub {n : Nat} (u v : Vec n K) : (u.sub v).toV = u.toV - v.toV := by
  unfold Vec.sub; rw [toV_ofFn]; funext i; rfl
@[simp] theorem toV_neg {n : Nat} (u : Vec n K) : u.neg.toV = - u.toV := by
  unfold Vec.neg; rw [toV_ofFn]; funext i; rfl
@[simp] theorem toV_smul {n : Nat} (c : K) (u : Vec n K) : (Vec.smul c u).toV = c • u.toV := by
  unfold Vec.smul; rw [toV_ofFn]; funext i; rfl
@[simp] theorem toV_zero {n : Nat} : (Vec.zero : Vec n K).toV = 0 := by
  funext i; rfl
@[simp] theorem toV_hmul {n : Nat} (u v : Vec n K) : (u.hmul v).toV = Matrix.diagonal u.toV *ᵥ v.toV := by
  unfold Vec.hmul; rw [toV_ofFn]; funext i
  simp [Vec.toV, Matrix.mulVec_diagonal]
theorem toV_hmul' {n : Nat} (u v : Vec n K) : (u.hmul v).toV = u.toV * v.toV := by
  unfold Vec.hmul; rw [toV_ofFn]; funext i; rfl
@[simp] theorem diagonal_diag_mulVec {n : Nat} (u v : Fin n → K) :
    Matrix.diagonal (Matrix.diagonal u *ᵥ v) = Matrix.diagonal u * Matrix.diagonal v := by
  rw [Matrix.diagonal_mul_diagonal]; congr 1; funext i; simp [Matrix.mulVec_diagonal]
@[simp] theorem diagonal_mul_diagonal_mul {n k : Nat} (u v : Fin n → K) (X : Matrix (Fin n) (Fin k) K) :
    Matrix.diagonal u * (Matrix.diagonal v * X) = (Matrix.diagonal fun i => u i * v i) * X := by
  rw [← Matrix.mul_assoc, Matrix.diagonal_mul_diagonal]
@[simp] theorem diagonal_mulVec_diagonal_mulVec {n : Nat} (u v w : Fin n → K) :
    Matrix.diagonal u *ᵥ (Matrix.diagonal v *ᵥ w) = (Matrix.diagonal fun i => u i * v i) *ᵥ w := by
  rw [Matrix.mulVec_mulVec, Matrix.diagonal_mul_diagonal]
theorem diagonal_pi_mul {n : Nat} (u v : Fin n → K) :
    Matrix.diagonal (u * v) = Matrix.diagonal u * Matrix.diagonal v := by
  rw [Matrix.diagonal_mul_diagonal]; rfl
@[simp] theorem toV_ones {n : Nat} : (Vec.ones : Vec n K).toV = 1 := by
  funext i; rfl
theorem dot_eq {n : Nat} (u v : Vec n K) : u.dot v = u.toV ⬝ᵥ v.toV := by
  simp [Vec.dot, vsum_eq, dotProduct, Vec.toV]
@[simp] theorem toV_diagVec {n : Nat} (A : Mat n n K) : A.diagVec.toV = Matrix.diag A.toM := by
  funext i; rfl

theorem beq_iff_toM [DecidableEq K] {m n : Nat} (A B : Mat m n K) : A.beq B = true ↔ A.toM = B.toM := by
  constructor
  · intro h
    funext i j
    simp only [Mat.beq, List.all_eq_true, List.mem_finRange, forall_const, decide_eq_true_eq] at h
    exact h i j
  · intro h
    simp only [Mat.beq, List.all_eq_true, List.mem_finRange, forall_const, decide_eq_true_eq]
    intro i j
    exact congrFun (congrFun h i) j
end ring

section field
variable [Field K]
@[simp] theorem toV_inv {n : Nat} (u : Vec n K) : u.inv.toV = fun i => (u.toV i)⁻¹ := by
  unfold Vec.inv; rw [toV_ofFn]; funext i; simp [Vec.toV]
end field

end Pdq
