import Pdq.Model.LinAlg
import Pdq.Model.Gauss
import Pdq.Drv.Core
import Pdq.Drv.Gauss
import Pdq.Bridge
