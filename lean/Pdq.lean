import Pdq.Bridge
import Pdq.Drv.Core
import Pdq.Drv.Gauss
import Pdq.Generated.Consts
import Pdq.Model.Gauss
import Pdq.Model.LinAlg
import Pdq.Props.C08
