"""usage: manifest_add.py <Cxx> <category> <technique> <<< JSON {"text":..., "note":..., "ref":...}"""
import json, sys
pid, cat, tech = sys.argv[1], sys.argv[2], sys.argv[3]
d = json.load(sys.stdin)
m = json.load(open('/verif/MANIFEST.json'))
m["checks"] = [c for c in m["checks"] if c["property_id"] != pid]
m["checks"].append({"property_id": pid, "quick_cmd": f"/venv/bin/python run_check.py {pid} --tier quick", "thorough_cmd": f"/venv/bin/python run_check.py {pid} --tier thorough", "evidence_file": f"evidence/{pid}.json", "replay_cmd_template": "/venv/bin/python run_check.py " + pid + " --replay {path}", "engine": "pdq-lean", "level_claimed": {"category": cat, "text": d["text"], "design_ref": d.get("ref", f"DESIGN.md §4 {pid}")}, "level_note": d["note"], "technique": tech})
m["checks"].sort(key=lambda c: c["property_id"])
m["not_applicable"] = [x for x in m["not_applicable"] if x["property_id"] != pid]
m["engines"][0]["serves_properties"] = sorted(c["property_id"] for c in m["checks"])
json.dump(m, open('/verif/MANIFEST.json', 'w'), indent=1)
print("ok", pid, len(m["checks"]), "checks;", len(m["not_applicable"]), "n/a")
