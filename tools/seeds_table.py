#!/usr/bin/env python3
"""Render the table of seeded changes (seeded/*/meta.json) for DESIGN.md §9.8."""
import json, re
from pathlib import Path
V = Path(__file__).resolve().parent.parent
rows = []
for d in sorted((V / "seeded").iterdir()):
    m = json.loads((d / "meta.json").read_text())
    notes = (d / "notes.md").read_text() if (d / "notes.md").exists() else ""
    patch = (d / "patch.diff").read_text()
    files = sorted(set(re.findall(r"^\+\+\+ b/(\S+)", patch, re.M)))
    first = ""
    for line in notes.splitlines():
        line = line.strip(" #*-")
        if len(line) > 25:
            first = line
            break
    det = ", ".join(m.get("detected_by", [])) or "**none**"
    hist = m.get("history", "")
    rows.append(f"| {m['seed_id']} | {m['property']} | {', '.join(f.split('/')[-1] for f in files)} | {first[:110].replace('|','/')} | {det} | {'yes' if m.get('tests_pass') else '?'} | {hist[:160].replace('|','/')} |")
print("| seed | property | file(s) | what (from the seeding agent's notes) | detected by (quick tier) | repo tests pass | history |")
print("|---|---|---|---|---|---|---|")
print("\n".join(rows))
