#!/usr/bin/env python3
"""Put the current seeds table (tools/seeds_table.py) into DESIGN.md section 9.8 (between the two markers)."""
import subprocess
from pathlib import Path

V = Path(__file__).resolve().parent.parent
B, E = "<!-- seeds-table:begin -->", "<!-- seeds-table:end -->"
tab = subprocess.run(["python3", str(V / "tools" / "seeds_table.py")], capture_output=True, text=True, check=True).stdout.strip()
p = V / "DESIGN.md"
s = p.read_text()
if "SEEDS_TABLE_PLACEHOLDER" in s:
    s = s.replace("SEEDS_TABLE_PLACEHOLDER", f"{B}\n{E}")
a, b = s.index(B) + len(B), s.index(E)
s = s[:a] + "\n" + tab + "\n" + s[b:]
p.write_text(s)
print("rows:", tab.count("\n") - 1)
