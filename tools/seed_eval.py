#!/usr/bin/env python3
"""Confirm a seeded change and run our checks against it.

usage: seed_eval.py <scratch worktree of /repo | -> <k> <seed id> <property> <check id> [<check id> ...]
       ('-': re-evaluate from seeded/<seed id>/ on a fresh scratch worktree of the current /repo HEAD)

In the scratch worktree (never in /repo): apply out/<k>/patch.diff, run the repository's test suite (must pass),
run the demonstration (must fail with the change, pass without), run the given checks with the patched package
shadowing the installed one (PYTHONPATH / PDQ_REPO), restore the worktree, and write
/verif/seeded/<seed id>/{patch.diff, demo.py, meta.json}.
"""
import json
import os
import re
import shutil
import subprocess
import sys
import time
from pathlib import Path

VERIF = Path(__file__).resolve().parent.parent


def sh(cmd, cwd=None, env=None, timeout=3600):
    p = subprocess.run(cmd, shell=True, cwd=cwd, env=env, capture_output=True, text=True, timeout=timeout)
    return p.returncode, p.stdout + p.stderr


def main():
    wt, k, sid, prop, *checks = sys.argv[1:]
    if wt == "-":
        # re-evaluation from the stored artefacts (seeded/<id>/), always on a fresh scratch worktree of the current HEAD
        out = VERIF / "seeded" / sid
        os.environ["SEED_FRESH_BASE"] = "1"
    else:
        wt = Path(wt)
        out = wt / "out" / k
    if os.environ.get("SEED_FRESH_BASE") == "1":
        # evaluate on top of the *current* /repo HEAD (the seed's own worktree may predate later fix commits):
        # fresh scratch worktree, removed afterwards
        fresh = Path(f"/tmp/seedbase-{os.getpid()}")
        sh(f"git -C /repo worktree add -q --detach {fresh} HEAD")
        try:
            return evaluate(fresh, out, sid, prop, checks)
        finally:
            sh(f"git -C /repo worktree remove --force {fresh}")
    return evaluate(wt, out, sid, prop, checks)


def evaluate(wt, out, sid, prop, checks):
    env = dict(os.environ, PYTHONPATH=str(wt), PDQ_REPO=str(wt), JAX_PLATFORMS="cpu", PDQ_EVIDENCE_DIR=f"/tmp/seed-evidence-{os.getpid()}")
    meta = {"seed_id": sid, "property": prop, "source": str(out), "ran": [], "base": sh("git rev-parse --short HEAD", cwd=wt)[1].strip()}
    old = VERIF / "seeded" / sid / "meta.json"
    prev = json.loads(old.read_text()) if old.exists() else {}
    sh("git checkout -- .", cwd=wt)
    rc, o = sh(f"PYTHONPATH={wt} /venv/bin/python demo.py", cwd=out)
    meta["demo_without_change_rc"] = rc
    rc, o = sh(f"git apply {out}/patch.diff", cwd=wt)
    if rc != 0:
        print("patch does not apply:", o)
        return 2
    try:
        t = time.time()
        if os.environ.get("SEED_SKIP_TESTS") != "1":
            rc, o = sh("/venv/bin/python -m pytest -q -p no:cacheprovider --timeout=900 -n 8 tests 2>&1 | tail -3", cwd=wt, env=env)
            meta["pytest_tail"] = o.strip().splitlines()[-1] if o.strip() else ""
            meta["tests_pass"] = bool(re.search(r"\b335 passed", o)) and "failed" not in o
            meta["ran"].append(f"pytest -n 8 tests ({time.time()-t:.0f}s): {meta['pytest_tail']}")
        rc, o = sh(f"PYTHONPATH={wt} /venv/bin/python demo.py", cwd=out)
        meta["demo_with_change_rc"] = rc
        meta["demo_with_change_tail"] = o.strip()[-600:]
        meta["checks"] = {}
        for c in checks:
            t = time.time()
            rc, o = sh(f"/venv/bin/python run_check.py {c} --tier quick", cwd=VERIF, env=env, timeout=3000)
            sigs = re.findall(r"VIOLATION property=\S+ replay=(\S+)", o)
            msgs = [l.strip() for l in o.splitlines() if l.startswith("  ")][:6]
            meta["checks"][c] = {"exit": rc, "violations": len(sigs), "first_messages": msgs, "wall_s": round(time.time() - t)}
            meta["ran"].append(f"run_check.py {c} --tier quick with the patched package shadowing /repo: exit {rc}")
            print(c, "exit", rc, msgs[:2])
    finally:
        sh("git checkout -- .", cwd=wt)
    # regenerate evidence against the real /repo is the caller's business; copy the artefacts
    dst = VERIF / "seeded" / sid
    dst.mkdir(parents=True, exist_ok=True)
    if out.resolve() != dst.resolve():
        shutil.copy(out / "patch.diff", dst / "patch.diff")
        shutil.copy(out / "demo.py", dst / "demo.py")
    if (out / "notes.md").exists():
        if out.resolve() != dst.resolve():
            shutil.copy(out / "notes.md", dst / "notes.md")
        notes = (out / "notes.md").read_text()
        meta["needs_to_manifest"] = notes[:1500]
    meta["detected_by"] = [c for c, r in meta.get("checks", {}).items() if r["exit"] == 1]
    for key in ("tests_pass", "pytest_tail", "history"):
        if key not in meta and key in prev:
            meta[key] = prev[key]
    if prev.get("ran"):
        meta["ran"] = [x for x in prev["ran"] if x.startswith("pytest")] + meta["ran"]
    (dst / "meta.json").write_text(json.dumps(meta, indent=1))
    print(json.dumps({k_: meta[k_] for k_ in ("seed_id", "tests_pass", "demo_without_change_rc", "demo_with_change_rc", "detected_by") if k_ in meta}))
    return 0


if __name__ == "__main__":
    sys.exit(main())
